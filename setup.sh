#!/bin/sh
# Offline set-up of the overlay venv used by every check (idempotent).
set -e
cd "$(dirname "$0")"
if [ -x .venv/bin/python ] && .venv/bin/python -c "import crosshair, z3, ply" 2>/dev/null; then
  exit 0
fi
rm -rf .venv
/venv/bin/python -m venv .venv
echo "/venv/lib/python3.12/site-packages" > .venv/lib/python3.12/site-packages/_base.pth
PIP_NO_INDEX=1 .venv/bin/pip install -q --no-index --find-links /opt/veriftools/wheels crosshair-tool z3-solver
.venv/bin/python -c "import crosshair, z3, ply"
