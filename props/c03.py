"""C03 obligations: lexer reset frame lemma (CH-lex); statement splitting (CH-pre) added later."""
from props._lexobs import FN
from vf.ch import Ob

ASSUMPTIONS = ["the lexer is deterministic in (word, flags): equal flags after the reset give equal token streams for the whole next statement",
               "PLY creates fresh parser stacks per parse() call (read in ply.yacc.LRParser.parseopt_notrack)"]
OUTSIDE = ["statements whose ';' is not at a line end", "scripts using \"input.regex\" (lexer.state is never reset)"]


def obligations(tier):
    t = 240 if tier == "quick" else 900
    return [Ob("C03.reset/all_flags", "lex", "c_reset", {"VF_CTX": 0}, t, FN,
               "every lexer flag symbolic (7 bools, lp_open/lt_open 0..3, last_token any string <= 10 chars, last_par any string <= 2 chars) x all 117 vocabulary words")]
