"""C03 obligations: lexer reset frame lemma (CH-lex); statement splitting (CH-pre) added later."""
from props._lexobs import FN, lex_obs
from props._preobs import FN_PRE, PRE_ASSUME
from vf.ch import Ob

ASSUMPTIONS = ["the lexer is deterministic in (word, flags): equal flags after the reset give equal token streams for the whole next statement",
               *PRE_ASSUME,
               "PLY creates fresh parser stacks per parse() call (read in ply.yacc.LRParser.parseopt_notrack)"]
OUTSIDE = ["statements whose ';' is not at a line end", "scripts using \"input.regex\" (lexer.state is never reset)"]


def obligations(tier):
    t = 240 if tier == "quick" else 900
    obs = [Ob("C03.split/2lines", "pre", "c_split2", {}, t, FN_PRE,
              "two complete one-line statements, each any of 27 catalogued lines (7 supported, 13 unsupported/skipped/blank incl. an unbalanced parenthesis inside a literal, 3 SET, 4 further: TRUNCATE / MERGE and two skipped statements without a terminating ';') by symbolic index: result = concatenation of the results alone")]
    firsts = [0, 2, 7, 10, 14, 20] if tier == "quick" else list(range(23))
    for k in firsts:
        obs.append(Ob(f"C03.split/3lines/first={k}", "pre", "c_split3", {"VF_K1": k}, t, FN_PRE,
                      f"three lines: first = catalogue line #{k}, second and third any of the 27 (symbolic)"))
    obs += lex_obs("C03", "c_case", ["option_pos", "after_columns", "stmt_start", "col_later"], tier, "tables-intact")
    obs.append(Ob("C03.fresh/accumulators", "c06", "c_fresh", {}, t, ["simple_ddl_parser/dialects/sql.py:p_t_name, p_domain_name/p_expression_domain_as, p_type_name/p_type_definition, p_seq_name"],
                  "two statements never share a mutable accumulator: two calls of each skeleton-building action return dicts without a common list / dict"))
    obs.append(Ob("C03.order/redefinition", "c04", "c_redefine", {}, t, ["simple_ddl_parser/output/core.py:Output.format, process_alter_and_index_result"],
                  "ALTER / CREATE INDEX results are merged where they occur: a table defined again later in the script does not receive them"))
    obs.append(Ob("C03.alter-merge/3_alters", "c04", "c_seq", {}, t, ["simple_ddl_parser/output/core.py:Output.format, process_alter_and_index_result", "simple_ddl_parser/output/base_data.py:BaseData alter_* / prepare_alter_columns"],
                  "three ALTER statements on one table, each any of 7 kinds (symbolic): what each contributes to its target table does not depend on the ALTERs before it (reference model = sequential fold)"))
    return obs + [Ob("C03.reset/all_flags", "lex", "c_reset", {"VF_CTX": 0}, t, FN,
               "every lexer flag symbolic (7 bools, lp_open/lt_open 0..3, last_token any string <= 10 chars, last_par any string <= 2 chars) x all 117 vocabulary words")]
