"""C11 obligations."""
from props._lexobs import lex_obs
from props._pipeobs import FN_PIPE, PIPE_ASSUME
from vf.ch import Ob

ASSUMPTIONS = PIPE_ASSUME + ["catalog/clauses.json (33 clauses, frozen from the pinned commit and reviewed against README / tests) documents key and value of each clause"]
OUTSIDE = ["clauses of different dialects combined in one statement", "two clauses writing the same key", "clause values that are expressions; input.regex SERDE properties",
           "the recorded finding: ORGANIZATION INDEX after TABLESPACE / STORAGE"]
NCL = 40
MODES = ["hql", "mysql", "oracle", "redshift", "snowflake", "mssql", "bigquery", "postgres", "spark_sql", "ibm_db2"]


def obligations(tier):
    t = 300 if tier == "quick" else 1200
    obs = [Ob(f"C11.pipe/first={i}", "pipe", "c_clauses", {"VF_C1": i}, t, FN_PIPE,
              f"table body + clause #{i} + any compatible second clause of the same dialect (symbolic index): both keys with catalogued values, body unchanged (default mode)",
              known="organization-index-after-tablespace") for i in range(NCL)]
    obs += [Ob(f"C11.mode/{m}", "pipe", "c_clause_mode", {"VF_MODE": m}, t, FN_PIPE,
               f"each clause owned by {m} (symbolic index), output_mode={m}: documented keys at top level with catalogued values, common fields unchanged") for m in MODES]
    obs += lex_obs("C11", "c_kw", ["after_columns", "after_clause"], tier, "lex")
    return obs


def solver_queries(tier, scratch):
    from vf import lr_lemmas
    return lr_lemmas.run_lemmas("C11", tier, scratch)
