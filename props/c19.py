"""C19 obligations (partial claim: plumbing and naming; codecs, real files and the sdp process are I/O)."""
from vf.ch import Ob

FN = ["simple_ddl_parser/ddl_parser.py:parse_from_file (open and DDLParser replaced by recording fakes)",
      "simple_ddl_parser/parser.py:Parser.run dump branch (parse_data and dump_data_to_file replaced by recording fakes)",
      "simple_ddl_parser/cli.py:run_for_file, correct_extension"]
ASSUMPTIONS = ["plumbing lemmas (plumb / dump/run / cli/run_for_file / cli/main): builtins open(), DDLParser, dump_data_to_file, parse_from_file (in cli) and pprint are recording fakes",
               "file-system lemmas (cli/fs/*, dump/dump_data_to_file): the real functions run natively on a fresh temporary tree, the solver chooses the case (names, modes, flags, invocation count); "
               "CrossHair's side-effect wall is opened for writes below that temporary directory only by construction of the case",
               "replays of counterexamples use real temporary files"]
OUTSIDE = ["decoding by arbitrary codecs and the sdp process start-up (console-script shim): not encodable; file and directory creation is covered for the catalogued cases only",
           "run(dump=True) without file_path (per-table dump files)", "file names ending with a dot"]


def obligations(tier):
    t = 120 if tier == "quick" else 600
    return [
        Ob("C19.plumb/parse_from_file", "misc", "c_plumb", {}, t, FN, "file content any string <= 3 chars, path <= 4, encoding <= 3, settings and run arguments symbolic"),
        Ob("C19.dump/run", "misc", "c_dump", {}, t, FN, "result of 0..2 entities, base name 1..2 chars, extension 0..3 chars, dump flag, group_by_type: all symbolic"),
        Ob("C19.name/correct_extension", "misc", "c_ext", {}, t, FN, "file names of 1..7 arbitrary characters not ending with a dot", api=False),
        Ob("C19.cli/main", "misc", "c_main", {}, t, FN + ["simple_ddl_parser/cli.py:main (argparse, os.path and os.listdir replaced by fakes)"],
           "three directory entries, each any of 7 catalogued names (symbolic indices; with / without / double extensions); path is a file or a directory (symbolic)"),
        Ob("C19.dump/dump_data_to_file", "misc", "c_dump_file", {}, t, ["simple_ddl_parser/output/core.py:dump_data_to_file (real file system: fresh temporary directory, native execution)"],
           "data a flat list / a grouped dict / one table dict / an empty list x 4 base names (dot, blank, mixed case) x target directory present or not (all symbolic)"),
    ] + [
        Ob(f"C19.cli/fs/{'dir' if d else 'file'}/{'no-dump' if nd else 'dump'}", "misc", "c_cli_fs", {"VF_CLI_DIR": d, "VF_CLI_NODUMP": nd}, max(t, 300),
           ["simple_ddl_parser/cli.py:main, cli, run_for_file, correct_extension", "simple_ddl_parser/ddl_parser.py:parse_from_file", "simple_ddl_parser/parser.py:Parser.run (dump branch)",
            "simple_ddl_parser/output/core.py:dump_data_to_file", "the whole parsing pipeline on one catalogued HQL-flavoured table"],
           "real cli.main on a fresh temporary tree (execution mode: native, the solver chooses the case): input name any of 4 (lower / mixed case, digits, underscore), "
           "-o any of sql / hql / mysql, an optional second invocation on the same target with any of the three modes, -t given or defaulted to ./schemas (all symbolic); "
           f"{'directory with two DDL files and one .txt' if d else 'single file'}, {'--no-dump: nothing may be created anywhere' if nd else 'dump: exactly <base>_schema.json per DDL file, content = API result of the last mode'}")
        for d in (0, 1) for nd in (0, 1)
    ] + [
        Ob("C19.cli/run_for_file", "misc", "c_cli", {}, t, FN, "path, target (<= 3 chars), --no-dump, -v, -o mode: symbolic", api=False),
    ]
