"""C10 obligations: one process per output mode."""
from vf.ch import Ob

MODES = ["sql", "redshift", "spark_sql", "mysql", "bigquery", "mssql", "databricks", "sqlite", "vertics",
         "ibm_db2", "postgres", "oracle", "hql", "snowflake", "athena"]
FN = ["simple_ddl_parser/output/core.py:Output.format/process_statement_data/add_index_to_table/add_alter_to_table",
      "output/table_data.py:TableData.init/pre_load_mods", "output/base_data.py:BaseData.__post_init__/filter_out_output/to_dict/prepare_alter_columns/create_alter_column_references",
      "output/dialects.py:dialect classes, CommonDialectsFieldsMixin, BigQuery.to_dict/prepare_ref_statement"]
ASSUMPTIONS = ["act->out contract: statement dicts have the shapes the real parser produces (copied from parse_data())",
               "stub: the per-mode dataclass is built once per process by the real get_dialect_class (memoised outside tracing)",
               "execution-mode stub: BaseData.filter_out_output runs natively (CrossHair tracing suspended) on concrete arguments - the real code, not a model",
               "catalog/dialect_keys.json (frozen from the pinned commit's field metadata) is the documentation of which mode reports which key"]
OUTSIDE = ["per-dialect column extras (encode, encrypt) beyond 'common column attributes unchanged'",
           "tables with more than 2 columns; dialect key values longer than 2 characters"]


def obligations(tier):
    obs = []
    t = 300 if tier == "quick" else 900
    for m in MODES:
        if tier == "quick":
            obs.append(Ob(f"C10.filter/{m}/key", "c10", "c_key_filter", {"VF_MODE": m, "VF_VMIN": 1, "VF_VMAX": 1, "VF_HS_SYM": 0}, t, FN,
                          "one of the 41 catalogued dialect keys (symbolic index) x value kind str / list / dict (symbolic); no schema"))
        else:
            obs.append(Ob(f"C10.filter/{m}/key", "c10", "c_key_filter", {"VF_MODE": m}, t, FN,
                          "one of the 41 catalogued dialect keys (symbolic index) x value kind str / list / dict x value length 0..2 x schema presence (all symbolic)"))
        obs.append(Ob(f"C10.filter/{m}/stmts", "c10", "c_stmts", {"VF_MODE": m}, t, FN,
                      "1..2 columns, inline PK or not, schema or not, optional CREATE INDEX, ALTER ADD FOREIGN KEY none/1 col named/2 cols/2 cols+schema"))
    obs.append(Ob("C10.pipe/mode-independent-text", "pipe", "c_mode_text", {}, 600 if tier == "quick" else 1800,
                  ["whole pipeline (harness/pipe.py): Parser.run -> parse_data (pre-processor, lexer, driver, actions) -> Output.format in the chosen mode"],
                  "12 catalogued scripts ('#' in delimited / plain names and literals, comments, ALTER ADD / DROP sequences, FK ALTER, sequence, type + schema, DROP TABLE) x 15 modes "
                  "(both symbolic): same entities in the same order, common table / column fields equal to the default mode's (dataset = schema in BigQuery), no exception"))
    return obs
