"""C13 obligations."""
from vf.ch import Ob

FN = ["simple_ddl_parser/output/core.py:Output.group_by_type_result", "Output.format", "Output.process_statement_data",
      "simple_ddl_parser/parser.py:Parser.run (parse_data stubbed)", "output/table_data.py:TableData.init", "output/base_data.py:BaseData.to_dict"]
ASSUMPTIONS = ["act->out contract: parse_data() hands Output one dict per statement with the marker key of its kind (shapes copied from the real parser)",
               "entity names are concrete (get_table_id runs a regular expression on them); SET value / comment text symbolic, length <= 1 (may be empty)"]
OUTSIDE = ["an entity carrying two marker keys (no single statement produces one)", "scripts of more than 3 entities (regrouping is a per-entity loop; paper induction)"]
MODES_Q = ["sql", "bigquery", "hql"]
MODES_ALL = ["sql", "redshift", "spark_sql", "mysql", "bigquery", "mssql", "databricks", "sqlite", "vertics", "ibm_db2", "postgres", "oracle", "hql", "snowflake", "athena"]


def obligations(tier):
    obs = []
    t = 240 if tier == "quick" else 900
    modes = MODES_Q if tier == "quick" else MODES_ALL
    for m in modes:
        for n in (0, 1, 2):
            obs.append(Ob(f"C13.group/{m}/n{n}", "c13", "c_group2", {"VF_MODE": m, "VF_N": n}, t, FN,
                          f"{n} entities, each of any of the 9 kinds (symbolic); mode {m}; flat vs grouped run() compared"))
    for m in (["sql"] if tier == "quick" else ["sql", "bigquery", "hql", "mssql"]):
        for k3 in range(9):
            obs.append(Ob(f"C13.group/{m}/n3/k3={k3}", "c13", "c_group2", {"VF_MODE": m, "VF_N": 3, "VF_K3": k3}, t, FN,
                          f"3 entities: first two of any kind (symbolic), third of kind #{k3}; mode {m}"))
    firsts = [0, 7, 9, 11, 12, 14] if tier == "quick" else range(20)
    for g in firsts:
        obs.append(Ob(f"C13.pipe/first={g}", "pipe", "c_group_pipe", {"VF_G1": g, "VF_GQUICK": 1 if tier == "quick" else 0}, 500 if tier == "quick" else 1800, ["whole pipeline (harness/pipe.py) incl. parser.py process_set"],
                      f"three different catalogued statements, first = #{g}, others symbolic among {'14 of the ' if tier == 'quick' else ''}20 (three of them carry a trailing comment, two with the same text; 7 entity kinds, SET x = 1 / SET a ON / SET name / SET y 2, DROP TABLE, commented table, GO, database / schema / table with a "
                      "TABLESPACE clause, database with COMMENT): flat vs grouped: every entity in exactly one bucket - the bucket of its statement's kind -, order kept, comments gathered"))
    return obs
