"""C02 obligations."""
from props._lexobs import lex_obs
from vf.ch import Ob

FN_DRV = ["ply.yacc.LRParser.parse with the parser's current LALR tables (stub lexer)",
          "simple_ddl_parser/dialects/sql.py:p_expression_table, process_constraints_and_refs, process_unique_and_primary_constraint, add_ref_information_to_table, "
          "set_constraint, extract_check_data, p_pkey, p_pkey_statement, process_order_in_pk, p_uniq, p_constraint, p_foreign, p_ref, p_check_st, p_check_ex, p_pid",
          "simple_ddl_parser/output/base_data.py:BaseData.__post_init__, set_unique_columns, set_column_unique_param, populate_keys, "
          "get_pk_from_columns_and_constraints, remove_pk_from_columns, add_unique_columns, normalize_ref_columns_in_final_output"]
ASSUMPTIONS = ["lex->act contract: token types as in the item forms (C02.lex lemma: first word after a top-level comma)",
               "reference model: README conventions - UC_<cols> name for unnamed multi-column uniques, named FKs under constraints.references, unnamed FKs on the columns",
               "any number / order of items beyond two: LR step lemma back to [0,expr] (paper argument until the LR engine lands)"]
OUTSIDE = ["constraint column names spelled differently (quoting / case) from the column definition", "DEFERRABLE; MSSQL clustered PK / WITH",
           "more than two table-level items in one obligation; ON UPDATE SET NULL (two-word actions)"]
NI = 20
NAMESETS = ["a,b,c", "id,Id,ID", '"n",n,[n]', "x,`x`,X", "asc,desc,term"]


def obligations(tier):
    t = 300 if tier == "quick" else 900
    obs = []
    for ns, nst in enumerate(NAMESETS):
        items = range(NI) if (ns == 0 or tier == "thorough") else ([1, 2, 16] if ns == 4 else [2, 4, 9, 10, 12, 17])
        for i in items:
            obs.append(Ob(f"C02.drv/names={nst}/item1={i}", "drv", "c_items", {"VF_I1": i, "VF_NAMES": ns}, t, FN_DRV,
                          f"columns named {nst} (first optionally inline PRIMARY KEY, second optionally inline CONSTRAINT g REFERENCES r (z), third optionally inline UNIQUE - "
                          f"all symbolic) + table-level item #{i} + a second item, any other of the 18 (symbolic)"))
    for ns in ((1, 4) if tier == "quick" else range(5)):
        obs.append(Ob(f"C02.drv/inline-composite-pk/names={NAMESETS[ns]}", "drv", "c_items", {"VF_I1": 4, "VF_NAMES": ns, "VF_PK2": 1}, t, FN_DRV,
                      "inline PRIMARY KEY on the first and on the third column (symbolic): the key lists them in declaration order (not sorted, not reversed); + UNIQUE (b) + any second item"))
    for i in ([18, 5] if tier == "quick" else range(NI)):
        obs.append(Ob(f"C02.drv/normalize_names/item1={i}", "drv", "c_items", {"VF_I1": i, "VF_NAMES": 0, "VF_NORM": 1}, t, FN_DRV,
                      f"normalize_names=True: item #{i} + any second item; a constraint named `key` keeps its name without the delimiters"))
    for i in ([9, 10, 12, 17] if tier == "quick" else range(NI)):
        obs.append(Ob(f"C02.drv/schema-qualified-table/item1={i}", "drv", "c_items", {"VF_I1": i, "VF_NAMES": 0, "VF_TSCHEMA": 1}, t, FN_DRV,
                      f"the table is written shop.t: item #{i} + any second item - referenced schema / table / column exactly as written (an unqualified referenced table has schema None), "
                      "the table's own schema reported once, on the table"))
    obs.append(Ob("C02.pipe/check-expressions", "pipe", "c_check_expr", {}, t, ["whole pipeline (harness/pipe.py): pre-processor, lexer (check flag, < > handling), LALR driver, p_check_st / p_alter_check, output"],
                  "7 catalogued CHECK expressions (comparisons < > <> >= <=, a function call or a schema-qualified function before the comparison, and) x 5 declaration forms "
                  "(inline, table-level named / unnamed, ALTER ADD CHECK, ALTER ADD CONSTRAINT c CHECK) - both symbolic: reported exactly once, in the form's place, nowhere else"))
    obs += lex_obs("C02", "c_kw", ["col_later", "col_after_sized"], tier, "lex")
    obs += lex_obs("C02", "c_name", ["pk_list_first", "pk_list_later", "uniq_list_first", "fk_list_first", "ref_list_first"], tier, "lexname")
    return obs


def solver_queries(tier, scratch):
    from vf import lr_lemmas
    return lr_lemmas.run_lemmas("C02", tier, scratch, timeout=1500)
