"""C02 obligations."""
from props._lexobs import lex_obs
from vf.ch import Ob

FN_DRV = ["ply.yacc.LRParser.parse with the parser's current LALR tables (stub lexer)",
          "simple_ddl_parser/dialects/sql.py:p_expression_table, process_constraints_and_refs, process_unique_and_primary_constraint, add_ref_information_to_table, "
          "set_constraint, extract_check_data, p_pkey, p_pkey_statement, process_order_in_pk, p_uniq, p_constraint, p_foreign, p_ref, p_check_st, p_check_ex, p_pid",
          "simple_ddl_parser/output/base_data.py:BaseData.__post_init__, set_unique_columns, set_column_unique_param, populate_keys, "
          "get_pk_from_columns_and_constraints, remove_pk_from_columns, add_unique_columns, normalize_ref_columns_in_final_output"]
ASSUMPTIONS = ["lex->act contract: token types as in the item forms (C02.lex lemma: first word after a top-level comma)",
               "reference model: README conventions - UC_<cols> name for unnamed multi-column uniques, named FKs under constraints.references, unnamed FKs on the columns",
               "any number / order of items beyond two: LR step lemma back to [0,expr] (paper argument until the LR engine lands)"]
OUTSIDE = ["constraint column names spelled differently (quoting / case) from the column definition", "DEFERRABLE; MSSQL clustered PK / WITH; ASC/DESC inside key lists",
           "more than two table-level items in one obligation; ON UPDATE SET NULL (two-word actions)"]
NI = 15


def obligations(tier):
    t = 200 if tier == "quick" else 900
    obs = [Ob(f"C02.drv/item1={i}", "drv", "c_items", {"VF_I1": i}, t, FN_DRV,
              f"columns a, b, c (a optionally inline PRIMARY KEY, c optionally inline UNIQUE - symbolic) + table-level item #{i} + a second item, any other of the 15 (symbolic)")
           for i in range(NI)]
    obs += lex_obs("C02", "c_kw", ["col_later", "col_after_sized"], tier, "lex")
    obs += lex_obs("C02", "c_name", ["pk_list_first", "pk_list_later", "uniq_list_first", "fk_list_first", "ref_list_first"], tier, "lexname")
    return obs
