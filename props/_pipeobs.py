"""Shared text for the whole-pipeline (CH-pipe) obligations."""
FN_PIPE = ["simple_ddl_parser/parser.py:Parser.run, parse_data, pre_process_data, process_line ...", "simple_ddl_parser/ddl_parser.py: the real PLY lexer (all t_* rules) and p_id / p_string / p_error",
           "ply.yacc.LRParser.parse with the parser's current LALR tables", "simple_ddl_parser/dialects/*.py: the semantic actions reached by the catalogued statements",
           "simple_ddl_parser/output/*: Output.format, TableData.init, BaseData post-processing"]
PIPE_ASSUME = ["statement text is assembled from the catalogues of harness/pipe.py by symbolic indices: on every path the text reaching the regular expressions is concrete",
               "execution-mode stubs: dialect class memoised per process; BaseData.filter_out_output executed natively on concrete arguments",
               "Parser.data is set to text.encode('unicode_escape') exactly as the constructor does (C-level, concrete)"]
