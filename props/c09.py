"""C09 obligations."""
from props._lexobs import lex_obs
from props._pipeobs import FN_PIPE, PIPE_ASSUME
from vf.ch import Ob

ASSUMPTIONS = PIPE_ASSUME + ["types are compared blank-insensitively (the parser re-spaces inner commas)"]
OUTSIDE = ["types outside the 24-entry catalogue (depth > 2, other constructors)", "the recorded finding: a first type word containing both '<' and '>'",
           "three-word types such as TIMESTAMP WITH TIME ZONE"]


def obligations(tier):
    t = 400 if tier == "quick" else 1200
    obs = [Ob(f"C09.type/pos={p}", "pipe", "c_type", {"VF_POS": p}, t, FN_PIPE,
              "24 catalogued types (sizes (n) (p,s) (max) (n CHAR) (*,s), [] suffixes, two-word types, <...> types nested to depth 2, with/without blank after inner commas) x "
              "5 following option sets x column position " + str(p) + " of 3 (type and options symbolic)", known="angle-brackets-in-one-token")
           for p in range(3)]
    obs += lex_obs("C09", "c_case", ["type_pos"], tier, "lexcase")
    return obs
