"""C09 obligations."""
from props._lexobs import lex_obs
from props._pipeobs import FN_PIPE, PIPE_ASSUME
from vf.ch import Ob

ASSUMPTIONS = PIPE_ASSUME + ["types are compared blank-insensitively (the parser re-spaces inner commas)"]
OUTSIDE = ["types outside the 24-entry catalogue (depth > 2, other constructors)", "the recorded finding: a first type word containing both '<' and '>'",
           "three-word types such as TIMESTAMP WITH TIME ZONE"]


def obligations(tier):
    t = 400 if tier == "quick" else 1200
    obs = []
    for p in range(3):
        for pv, pvn in enumerate(["plain", "DEFAULT", "NOT NULL", "CHECK"]):
            if tier == "quick" and pv == 2:
                continue
            obs.append(Ob(f"C09.type/pos={p}/neighbour={pvn}", "pipe", "c_type", {"VF_POS": p, "VF_PV": pv}, t, FN_PIPE,
                          "31 catalogued types (sizes (n) (p,s) (max) (n CHAR) (*,s), [] suffixes, two-word types, <...> types nested to depth 2 (three to depth 4 with glued / partly detached closers), with/without blank after inner commas) x "
                          f"5 following option sets (both symbolic); column position {p} of 3; preceding neighbour p int {pvn if pv else ''}", known="angle-brackets-in-one-token"))
    obs.append(Ob("C09.type/after-earlier-statement", "pipe", "c_type_after", {}, t, FN_PIPE,
                  "a table with a column of any of the 31 catalogued types parsed after one of 8 earlier statements (CHECK in a table / in an ALTER, DEFAULT, <...> type, LIKE, sequence, an unpaired '<' in a view / in an index predicate - both symbolic) equals the table alone"))
    obs += lex_obs("C09", "c_case", ["type_pos"], tier, "lexcase")
    return obs


def solver_queries(tier, scratch):
    from vf import lr_lemmas
    return lr_lemmas.run_lemmas("C09", tier, scratch)
