"""C05 obligations: keyword case (CH-lex); whitespace / line layout (CH-pre) are added below."""
from props._lexobs import CTX, lex_obs, mask_obs
from props._preobs import FN_PRE, PRE_ASSUME
from vf.ch import Ob

ASSUMPTIONS = [*PRE_ASSUME,
               "pre->lex contract: the statement reaches the lexer as blank-separated words (C05.space obligations)",
               "PLY dispatches a word to t_COLLATE / t_AUTOINCREMENT / t_ID by its master regex; the dispatch is taken from the real compiled regex on the upper-case spelling",
               "contexts: the 28 prefixes of harness/lex.py CONTEXTS; what follows the word is outside the lexer lemma (replayed through the public API)"]
OUTSIDE = ["ARRAY outside a column definition (no supported statement contains it there)",
           "case masks other than the stated styles in the quick tier; words longer than 6 letters in the full-mask obligations",
           "line breaks inside quoted literals", "more than 3 line breaks per statement; lines starting with a statement-level word (excluded by the property)"]


def obligations(tier):
    obs = lex_obs("C05", "c_case", CTX, tier, "case")
    t = 300 if tier == "quick" else 1500
    for ti, name in enumerate(["create_table", "alter_fk", "create_index", "create_sequence"]):
        obs.append(Ob(f"C05.lines/{name}", "pre", "c_lines", {"VF_T": ti, "VF_NBREAK": 2 if tier == "quick" else 3}, t, FN_PRE,
                      "line breaks at up to 2 [thorough 3] token gaps (symbolic positions), LF or CRLF line ends (symbolic), continuation indent 0/2/4 blanks, optional blank line; same statement as the one-line spelling",
                      known="quote-at-line-start"))
    for semi in (0, 1):
      for l4 in ((1,) if tier == "quick" else (0, 1, 2, 3)):
        obs.append(Ob(f"C05.lines/four-statements/{'semicolons' if semi else 'unterminated'}/last-layout={l4}", "pre", "c_layout3", {"VF_L3_SEMI": semi, "VF_L3_L4": l4}, 600 if tier == "quick" else 1800, FN_PRE,
                  "four CREATE TABLE statements, the first three in any of 4 layouts (one line, '(' on the CREATE line + one column per line, '(' on its own line, leading commas), terminated by ';' or only by the "
                  "next CREATE line (fixed per obligation), with / without blank lines between them, LF / CRLF - symbolic (256 scripts per obligation): the parser is handed the four statements of the one-line spelling"))
    obs.append(Ob("C05.crlf/parse_from_file-text-mode", "misc", "c_plumb", {}, 200, ["simple_ddl_parser/ddl_parser.py:parse_from_file"],
                  "file input is read in text mode with universal newlines (mode 'r', no newline= argument): CRLF files reach the parser as LF text; replay parses a real CRLF file"))
    obs.append(Ob("C05.case/statements", "pipe", "c_case_stmt", {}, 300 if tier == "quick" else 900,
                  ["whole pipeline (harness/pipe.py): pre-processor, real PLY lexer, LALR driver, actions, output"],
                  "16 catalogued statements (tables with IDENTITY / GENERATED / CHECK / constraints, Hive / MySQL / Oracle / Redshift / Snowflake clauses, 3 ALTER kinds, index, "
                  "sequence, type, schema, tablespace, drop) with every marked keyword lower-cased or Capitalized (symbolic): same result as upper case",
                  known="asc-desc-lowercase"))
    if tier == "thorough":
        obs += mask_obs("C05", ["option_pos", "after_columns", "seq_options", "alter_body", "col_later", "after_create"], tier)
    return obs
