"""C05 obligations: keyword case (CH-lex); whitespace / line layout (CH-pre) are added below."""
from props._lexobs import CTX, lex_obs, mask_obs

ASSUMPTIONS = ["pre->lex contract: the statement reaches the lexer as blank-separated words (C05.space obligations)",
               "PLY dispatches a word to t_COLLATE / t_AUTOINCREMENT / t_ID by its master regex; the dispatch is taken from the real compiled regex on the upper-case spelling",
               "contexts: the 28 prefixes of harness/lex.py CONTEXTS; what follows the word is outside the lexer lemma (replayed through the public API)"]
OUTSIDE = ["ARRAY outside a column definition (no supported statement contains it there)",
           "case masks other than the stated styles in the quick tier; words longer than 6 letters in the full-mask obligations",
           "line breaks inside quoted literals"]


def obligations(tier):
    obs = lex_obs("C05", "c_case", CTX, tier, "case")
    if tier == "thorough":
        obs += mask_obs("C05", ["option_pos", "after_columns", "seq_options", "alter_body", "col_later", "after_create"], tier)
    return obs
