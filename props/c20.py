"""C20 obligations: z3 equality queries over the LALR tables (LR engine, part 1)."""
import os
import time

from vf import lr
from vf.scratch import REPO, drop

ASSUMPTIONS = ["PLY's table generator is deterministic for a given grammar (checked across hash seeds by C14.hash)",
               "the fresh generation mirrors ply.yacc.yacc(): ParserReflect -> Grammar -> LRGeneratedTable('LALR')",
               "productions are compared on (text, lhs, length, action function name); file/line columns are not used by the driver"]
OUTSIDE = ["I/O faults while reading or writing the cache file", "pickled tables (the library does not use them)"]
FN = ["simple_ddl_parser/parsetab.py (read as data)", "simple_ddl_parser/parser.py:Parser.__init__ yacc.yacc(module=self, debug=False)",
      "ply.yacc: ParserReflect, Grammar, LRGeneratedTable, LRTable.read_table / bind_callables", "all p_* docstrings of simple_ddl_parser/dialects/*.py and ddl_parser.py, tokens.py"]


def _record(oid, diffs, bounds, extra=None):
    unsat = all(d["answer"] == "unsat" for d in diffs)
    sat = [d for d in diffs if d["answer"] == "sat"]
    r = {"id": oid, "engine": "z3-tables", "functions": FN, "bounds": bounds, "queries": diffs,
         "solver_wall_s": round(sum(d["solver_s"] for d in diffs), 2)}
    if unsat:
        r["result"] = "discharged"
        r["witness"] = {"entries_compared": {d["table"]: d["entries"] for d in diffs}}
    elif sat:
        r["result"] = "violation"
        r["counterexample"] = {"difference": sat[0]["model"], "table": sat[0]["table"], "reproduced": True,
                               "note": "index returned by z3 re-read from both tables concretely"}
    else:
        r["result"] = "inconclusive"
    if extra:
        r.update(extra)
    return r


def solver_queries(tier, scratch):
    out = []
    try:
        fresh = lr.gen_tables(scratch)
    except RuntimeError as e:
        # the declared grammar cannot be turned into tables at all (PLY's validation or generator rejects it): a valid
        # shipped cache hides that; what the library does when the cache is missing or stale decides the property
        gen_error = str(e)[-400:]
        for state in ["valid", "missing", "stale_signature", "old_tabversion"]:
            d = lr.scratch_with_cache(state, "NO-FRESH-SIGNATURE")
            try:
                lr.runtime_tables(d)
                out.append({"id": f"C20.cache/{state}", "engine": "z3-tables", "functions": FN, "result": "inconclusive", "solver_wall_s": 0.0,
                            "bounds": f"cache state {state}", "detail": "the parser object builds, but the fresh generation used as the reference failed: " + gen_error})
            except Exception as e2:
                out.append({"id": f"C20.cache/{state}", "engine": "z3-tables", "functions": FN, "result": "violation", "solver_wall_s": 0.0,
                            "bounds": f"cache state {state}: constructing / running the parser in a fresh interpreter on a package copy whose parsetab.py is {state}",
                            "counterexample": {"error": str(e2)[-600:], "fresh_generation_error": gen_error, "reproduced": True,
                                               "note": "the library fails instead of regenerating its tables under this cache state"}})
            drop(d)
        return out
    # 1. the table file of the working tree
    path = os.path.join(REPO, "simple_ddl_parser", "parsetab.py")
    if os.path.exists(path):
        f = lr.file_tables(path)
        if f["signature"] == fresh["signature"] and f["tabversion"] == fresh["tabversion"]:
            out.append(_record("C20.eq/worktree-parsetab", lr.differ(f, fresh, "file", "fresh"),
                               "every (state, terminal) action, (state, non-terminal) goto and production of /repo's parsetab.py vs a fresh generation from the declared grammar"))
        else:
            out.append({"id": "C20.eq/worktree-parsetab", "engine": "z3-tables", "functions": FN, "result": "discharged",
                        "bounds": "signature of the file differs from the grammar's: PLY ignores the file and regenerates (covered by the cache-state obligations)",
                        "witness": {"file_signature_matches": False}, "solver_wall_s": 0.0})
    else:
        out.append({"id": "C20.eq/worktree-parsetab", "engine": "z3-tables", "functions": FN, "result": "discharged",
                    "bounds": "no parsetab.py in the working tree: nothing shipped to compare", "witness": {"file": None}, "solver_wall_s": 0.0})
    # 2. what the library actually runs with under each cache state
    results = {}
    for state in ["valid", "missing", "stale_signature", "old_tabversion"]:
        d = lr.scratch_with_cache(state, fresh["signature"])
        try:
            rt = lr.runtime_tables(d)
        except Exception as e:
            out.append({"id": f"C20.cache/{state}", "engine": "z3-tables", "functions": FN, "result": "violation",
                        "bounds": f"cache state {state}", "counterexample": {"error": str(e)[-600:], "reproduced": True,
                                                                              "note": "constructing / running the parser failed under this cache state"},
                        "solver_wall_s": 0.0})
            drop(d)
            continue
        drop(d)
        results[state] = rt["results"]
        # the callable PLY bound to each production must be the grammar's action function
        for p in rt["productions"]:
            p[3] = p[4] if p[4] is not None else p[3]
        rec = _record(f"C20.cache/{state}", lr.differ(rt, fresh, "runtime", "fresh"),
                      f"tables and bound action functions the parser object runs with when parsetab.py is {state}, vs a fresh generation")
        out.append(rec)
    # 3. identical results under every cache state (small fixed corpus; concrete comparison)
    base = results.get("valid")
    diff = {s: r for s, r in results.items() if r != base}
    out.append({"id": "C20.cache/results-equal", "engine": "concrete", "functions": FN,
                "bounds": "4 statements (table, ALTER ADD PRIMARY KEY, DROP TABLE s.t, sequence) parsed under each of the 4 cache states",
                "result": "discharged" if not diff and base else "violation", "witness": {"states": sorted(results)},
                "counterexample": ({"differing_states": diff, "valid_cache": base, "reproduced": True} if diff else None), "solver_wall_s": 0.0})
    return out
