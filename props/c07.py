"""C07 obligations."""
from props._pipeobs import FN_PIPE, PIPE_ASSUME
from vf.ch import Ob

ASSUMPTIONS = PIPE_ASSUME
OUTSIDE = ["non-ASCII text (the unicode_escape round trip is a C boundary)", "literals outside the 22-entry catalogue; literal positions outside the 6 catalogued ones",
           "the recorded finding: literals containing ( ) ', ' '=' or a /* */ marker"]
FN_ACT = ["simple_ddl_parser/dialects/sql.py:p_default, pre_process_default, p_defcolumn"]


def solver_queries(tier, scratch):
    from vf import rx_queries as rq
    return rq.literal_queries(scratch, "C07", {}) + rq.numeral_queries(scratch, "C07")


def obligations(tier):
    t = 300 if tier == "quick" else 1200
    mv = {"quick": (3, 5), "thorough": (5, 8)}[tier]
    return [
        Ob("C07.pipe/literal", "pipe", "c_literal", {}, t, FN_PIPE,
           "37 catalogued literals (keywords, ; -- # inside incl. ' # ' between blanks, = with blanks, %, ., doubled quotes, empty) x 8 literal positions (DEFAULT, column COMMENT, table COMMENT, ENUM value, CHECK IN list, LOCATION) - both symbolic",
           known="respaced-literal"),
        Ob("C07.pipe/number", "pipe", "c_number", {}, t, FN_PIPE, "9 catalogued numerals incl. leading zeros and 2**63, last / not last column (symbolic)"),
        Ob("C07.val/default_literal", "drv", "c_default", {"VF_DKIND": 1, "VF_MAXV": mv[0]}, t, FN_ACT, f"DEFAULT '<text>': any text of 1..{mv[0]} characters without a quote, through the real p_default / p_defcolumn"),
        Ob("C07.val/default_number", "drv", "c_default", {"VF_DKIND": 2, "VF_MAXV": mv[1], "VF_UF": 1}, t, FN_ACT, f"DEFAULT <digits>: any digit string of 1..{mv[1]} digits -> int(text), int uninterpreted"),
    ]
