"""C08 obligations."""
from props._preobs import FN_PRE, PRE_ASSUME
from vf.ch import Ob

ASSUMPTIONS = PRE_ASSUME + ["comment text is re-spaced around , ( ) = by the pre-processor: compared blank-free (the property does not promise verbatim comment text)"]
OUTSIDE = ["quotes inside comment text", "comment markers inside literals (C07)", "more than one comment per script in one obligation"]
KINDS = ["line_dash", "line_hash", "line_block", "trail_dash", "trail_block", "multi_block", "multi_block_banner", "trail_dash_glued", "line_block_trailing_blank"]


def obligations(tier):
    t = 200 if tier == "quick" else 900
    return [Ob(f"C08.line/{k}", "pre", "c_comment", {"VF_KIND": i}, t, FN_PRE,
               "one comment of this kind at any of the 7 line positions of a 2-statement / 6-line script (symbolic), text any of 12 catalogued "
               "texts incl. ';'-terminated, keyword-leading (use/insert/delete/alter/GO/CREATE), commas and parentheses (symbolic index)")
            for i, k in enumerate(KINDS)] + [
        Ob(f"C08.line/{k}/quoted-lines", "pre", "c_comment", {"VF_KIND": i, "VF_BASE": 1}, t, FN_PRE,
           "as above on a script whose lines carry quoted literals containing the other kind of quote (DEFAULT '\"', a column named \"b's\")")
        for i, k in enumerate(KINDS) if k in ("trail_dash", "trail_dash_glued", "trail_block")]
