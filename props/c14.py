"""C14 obligations: re-run determinism (CH-pre); table generation under hash seeds is added by the LR engine."""
from props._preobs import FN_PRE, PRE_ASSUME
from vf.ch import Ob

ASSUMPTIONS = PRE_ASSUME
OUTSIDE = ["file-system side effects (parsetab.py rewriting, dump files) and cross-process behaviour other than table generation: not expressible as a solver query over the code"]
KINDS = ["line_dash", "line_hash", "line_block", "trail_dash", "trail_block", "multi_block"]


def obligations(tier):
    t = 300 if tier == "quick" else 1200
    return [Ob(f"C14.rerun/{k}", "pre", "c_rerun", {"VF_KIND": i, "VF_NCT": 4 if tier == "quick" else 12}, t, FN_PRE,
               "script with one comment (kind fixed, position and text symbolic) and a last line of 5 kinds (symbolic): parse_data() twice on the "
               "same object - second result equals the first, first result object unchanged")
            for i, k in enumerate(KINDS)]


def solver_queries(tier, scratch):
    """C14.hash: the LALR tables generated under different hash seeds are the same tables."""
    from props.c20 import _record
    from vf import lr
    base = lr.gen_tables(scratch, 0)
    out = []
    for seed in ([1] if tier == "quick" else [1, 2, 3, 7]):
        other = lr.gen_tables(scratch, seed)
        out.append(_record(f"C14.hash/seed{seed}", lr.differ(base, other, "seed0", f"seed{seed}"),
                           f"fresh LALR generation under PYTHONHASHSEED=0 vs {seed}: every action, goto and production"))
    return out
