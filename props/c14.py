"""C14 obligations: re-run determinism (CH-pre); table generation under hash seeds is added by the LR engine."""
from props._preobs import FN_PRE, PRE_ASSUME
from vf.ch import Ob

ASSUMPTIONS = PRE_ASSUME
OUTSIDE = ["file-system side effects (parsetab.py rewriting, dump files) and cross-process behaviour other than table generation: not expressible as a solver query over the code"]
KINDS = ["line_dash", "line_hash", "line_block", "trail_dash", "trail_block", "multi_block"]


def obligations(tier):
    t = 300 if tier == "quick" else 1200
    return [Ob(f"C14.rerun/{k}", "pre", "c_rerun", {"VF_KIND": i, "VF_NCT": 4 if tier == "quick" else 12}, t, FN_PRE,
               "script with one comment (kind fixed, position and text symbolic) and a last line of 5 kinds (symbolic): parse_data() twice on the "
               "same object - second result equals the first, first result object unchanged")
            for i, k in enumerate(KINDS)]
