"""C14 obligations: re-run determinism (CH-pre); table generation under hash seeds is added by the LR engine."""
from props._preobs import FN_PRE, PRE_ASSUME
from vf.ch import Ob

ASSUMPTIONS = PRE_ASSUME
OUTSIDE = ["rewriting of parsetab.py inside the installed package (C20) and cross-process behaviour other than table generation", "file-system effects are decided on one catalogued table per case (native execution; the solver chooses mode / flags / entry point), not for arbitrary DDL"]
KINDS = ["line_dash", "line_hash", "line_block", "trail_dash", "trail_block", "multi_block", "multi_block_banner", "trail_dash_glued", "line_block_trailing_blank"]


def obligations(tier):
    t = 300 if tier == "quick" else 1200
    extra = [Ob("C14.order/table_properties", "c10", "c_props_order", {"VF_MODE": "sql"}, t, ["simple_ddl_parser/output/table_data.py:TableData.pre_load_mods"],
                "three options without a dataclass field, any order (symbolic): reported in written order - an order taken from a set would differ for some triple; "
                "replay runs the public API under hash seeds 0..3"),
             Ob("C14.fresh/accumulators", "c06", "c_fresh", {}, t, ["simple_ddl_parser/dialects/sql.py:p_t_name, p_domain_name/p_expression_domain_as, p_type_name/p_type_definition, p_seq_name"],
                "two calls of each skeleton-building action return dicts that share no mutable sub-object (lists / dicts)")]
    FS = ["simple_ddl_parser/cli.py:main, run_for_file", "simple_ddl_parser/ddl_parser.py:parse_from_file", "simple_ddl_parser/parser.py:Parser.run", "simple_ddl_parser/output/core.py:dump_data_to_file",
          "the whole pipeline on one catalogued table (native execution on a fresh temporary tree)"]
    extra += [Ob("C14.nofiles/api", "misc", "c_nofiles", {}, t, FS, "run() / parse_from_file() without dump: 15 modes x group_by_type x json_dump x entry point (all symbolic): no file or directory "
                 "appears in the working directory, next to the input or under ./schemas; argument dicts unchanged"),
              Ob("C14.nofiles/cli-file", "misc", "c_cli_fs", {"VF_CLI_DIR": 0, "VF_CLI_NODUMP": 1}, t, FS, "sdp <file> --no-dump (name, -o, second invocation, -t given / defaulted: symbolic): nothing created"),
              Ob("C14.nofiles/cli-dir", "misc", "c_cli_fs", {"VF_CLI_DIR": 1, "VF_CLI_NODUMP": 1}, t, FS, "sdp <directory> --no-dump (as above): nothing created, the target directory included")]
    return extra + [Ob(f"C14.rerun/{k}", "pre", "c_rerun", {"VF_KIND": i, "VF_NCT": 4 if tier == "quick" else 12}, t, FN_PRE,
               "script with one comment (kind fixed, position and text symbolic) and a last line of 5 kinds (symbolic): parse_data() twice on the "
               "same object - second result equals the first, first result object unchanged")
            for i, k in enumerate(KINDS)] + [
        Ob(f"C14.rerun/{k}/respaced-literals", "pre", "c_rerun", {"VF_KIND": i, "VF_BASE": 2, "VF_NCT": 4 if tier == "quick" else 12}, t, FN_PRE,
           "as above on a script whose literals contain comma + blank and parentheses (text the spacing rules touch): the second call must not "
           "re-apply the preparation to text the first call already prepared")
        for i, k in enumerate(KINDS) if k in ("line_dash", "trail_block", "multi_block")]


def solver_queries(tier, scratch):
    """C14.hash: the LALR tables generated under different hash seeds are the same tables."""
    from props.c20 import _record
    from vf import lr
    base = lr.gen_tables(scratch, 0)
    out = []
    for seed in ([1] if tier == "quick" else [1, 2, 3, 7]):
        other = lr.gen_tables(scratch, seed)
        out.append(_record(f"C14.hash/seed{seed}", lr.differ(base, other, "seed0", f"seed{seed}"),
                           f"fresh LALR generation under PYTHONHASHSEED=0 vs {seed}: every action, goto and production"))
    return out
