"""C17 obligations."""
from props._lexobs import lex_obs
from vf.ch import Ob

FORMS = ["INCREMENT_n", "INCREMENT_BY_n", "START_n", "START_WITH_n", "MINVALUE_n", "MAXVALUE_n", "CACHE_n",
         "NO_MINVALUE", "NO_MAXVALUE", "CACHE", "NOORDER", "ORDER"]
NUMERIC = range(7)
FN = ["simple_ddl_parser/dialects/sql.py:BaseSQL.p_expression_seq"]
DRV = FN + ["simple_ddl_parser/dialects/sql.py:BaseSQL.p_seq_name", "p_create_seq", "ddl_parser.py:p_id",
            "ply.yacc.LRParser.parse with the parser's current LALR tables"]

ASSUMPTIONS = [
    "lexer->action contract: the numeral reaches the action as one ID token holding the written text (C17.lex / RX lemma)",
    "int() of CPython is correct (uninterpreted in the UF obligations)",
    "option order/number: the LR step lemma returns to [0,expr] after each option, so one-option steps compose",
]
OUTSIDE = ["numerals longer than the stated digit bounds when int() is interpreted",
           "sequence options not named in the property (CYCLE, OWNED BY, AS type)"]


def obligations(tier):
    obs = []
    maxdig = 2 if tier == "quick" else 3
    t = 90 if tier == "quick" else 600
    for i, name in enumerate(FORMS):
        num = i in NUMERIC
        obs.append(Ob(f"C17.val/{name}", "c17", "c_seq_value", {"VF_FORM": i, "VF_MAXDIG": maxdig if num else 1}, t, FN,
                      f"sign x digit strings of length 1..{maxdig}" if num else "no numeral; schema presence symbolic"))
        obs.append(Ob(f"C17.frame/{name}", "c17", "c_seq_frame", {"VF_FORM": i}, t, FN,
                      "pre-state: any 2 of the 9 other option keys present with values -9..9; 1 digit"))
        obs.append(Ob(f"C17.drv/{name}", "c17", "c_seq_drive", {"VF_FORM": i, "VF_MAXDIG": maxdig if num else 1}, t, DRV,
                      f"token stream CREATE SEQUENCE [s .] q <option>; sign x digit strings of length 1..{maxdig}"))
        if num:
            obs.append(Ob(f"C17.val64/{name}", "c17", "c_seq_value",
                          {"VF_FORM": i, "VF_MAXDIG": 1 if tier == "quick" else 2, "VF_BIGPREFIX": "922337203685477580" if tier == "quick" else "92233720368547758"}, t, FN,
                          "sign x 19-digit numerals 922337203685477580d (d symbolic): both sides of 2**63"))
            obs.append(Ob(f"C17.valUF/{name}", "c17", "c_seq_value", {"VF_FORM": i, "VF_MAXDIG": 6 if tier == "quick" else 10, "VF_UF": 1}, t, FN,
                          "int() uninterpreted; numeral text = optional '-' + any string of length 1..6 [thorough 10]",
                          api=True))
    obs += lex_obs("C17", "c_kw", ["seq_options", "seq_options2", "seq_after_cache"], tier, "lex")
    obs += lex_obs("C17", "c_case", ["seq_options", "seq_options2"], tier, "lexcase")
    from harness_names import SEQ_NAMES_DOC
    for n1, nm in enumerate(SEQ_NAMES_DOC):
      obs.append(Ob(f"C17.pipe/sequence-pairs/first={nm}", "pipe", "c_seq_pair", {"VF_SEQ_N1": n1, "VF_SEQ_QUICK": 1 if tier == "quick" else 0}, 400 if tier == "quick" else 1800,
                  ["whole pipeline (harness/pipe.py): pre-processor, lexer, LALR driver, p_expression_seq / p_seq_name, Output.format"],
                  f"two CREATE SEQUENCE statements: first name {nm}, second any of 9 (differing only in case / quoting / schema, or distinct), first option set any of 6, second any of "
                  f"{'3' if tier == 'quick' else '6'}, between them nothing or a table of the same name{'' if tier == 'quick' else ' (two variants)'} - symbolic: script result == concatenation of the results alone"))
    return obs


def solver_queries(tier, scratch):
    from vf import lr_lemmas
    from vf import rx_queries as rq
    return rq.numeral_queries(scratch, "C17") + lr_lemmas.run_lemmas("C17", tier, scratch)
