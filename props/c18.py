"""C18 obligations."""
from props._lexobs import lex_obs
from props._pipeobs import FN_PIPE, PIPE_ASSUME
from vf.ch import Ob

ASSUMPTIONS = PIPE_ASSUME + ["catalog/entities.json (19 statements, frozen from the pinned commit and reviewed) documents the entity each statement yields"]
OUTSIDE = ["CREATE DOMAIN with an unparenthesised base type and CREATE DATABASE IF NOT EXISTS (yield nothing at the pinned commit: unsupported forms)",
           "property lists of databases / tablespaces", "more than two entity statements per script in one obligation"]
NEN = 19


def obligations(tier):
    t = 400 if tier == "quick" else 1200
    obs = [Ob(f"C18.pipe/first={i}", "pipe", "c_entity", {"VF_E1": i}, t, FN_PIPE,
              f"entity statement #{i} + any second entity statement (symbolic) in 4 contexts (alone / after a table / between two tables / before a table - symbolic); "
              "tables use s.ty and ty2 as column types") for i in range(NEN)]
    obs.append(Ob("C18.group/one-bucket-each", "c13", "c_group2", {"VF_MODE": "sql", "VF_N": 2}, t, ["simple_ddl_parser/output/core.py:Output.group_by_type_result"],
                  "two entities of any kinds (symbolic), grouped: each entity in exactly the bucket of its kind - databases and tablespaces do not share a list"))
    obs.append(Ob("C18.pipe/entity-names", "pipe", "c_entity_name", {}, t, FN_PIPE,
                  "7 entity statements (type, schema, domain, database, tablespace, schema IF NOT EXISTS, schema-qualified type) x 10 names (starting with the type word ARRAY, containing # / $, "
                  "mixed case, keyword-like) - both symbolic; relational oracle: exactly the entity of the neutral name zz, renamed"))
    obs += lex_obs("C18", "c_kw", ["after_create"], tier, "lex")
    obs += lex_obs("C18", "c_name", ["after_dot", "type_after_dot"], tier, "lexname")
    return obs
