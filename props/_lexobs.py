"""Obligation builders for the CH-lex family (harness/lex.py), shared by several properties."""
from vf.ch import Ob

CTX = ["stmt_start", "after_create", "table_name", "col_first", "col_later", "col_after_sized", "type_pos", "option_pos",
       "option_pos2", "after_not", "after_default", "pk_list_first", "pk_list_later", "uniq_list_first", "fk_list_first",
       "ref_list_first", "after_constraint", "after_columns", "after_clause", "seq_options", "seq_options2", "alter_body",
       "alter_add", "index_name", "index_cols", "type_name", "schema_name", "after_dot", "seq_after_cache", "type_after_dot", "ref_list_later", "default_paren", "alter_drop", "alter_rename", "alter_modify"]
NAME_CTX = ["col_first", "col_later", "col_after_sized", "pk_list_first", "pk_list_later", "uniq_list_first", "fk_list_first",
            "ref_list_first", "index_cols", "after_dot", "type_after_dot", "ref_list_later"]
KW_CTX = ["stmt_start", "after_create", "col_later", "col_after_sized", "type_pos", "option_pos", "option_pos2", "after_not",
          "after_default", "after_columns", "after_clause", "seq_options", "seq_options2", "alter_body", "alter_add", "seq_after_cache", "alter_drop", "alter_rename", "alter_modify"]
FN = ["simple_ddl_parser/ddl_parser.py:DDLParser.t_ID, t_COLLATE, t_AUTOINCREMENT, is_token_column_name, is_creation_name, "
      "tokens_not_columns_names, process_body_tokens, after_columns_tokens, parse_tags_symbols, set_lexer_tags, capitalize_tokens, "
      "commat_type, set_lexx_tags, set_parenthesis_tokens, set_last_token", "simple_ddl_parser/tokens.py keyword tables",
      "simple_ddl_parser/parser.py:Parser.set_default_flags_in_lexer"]
STYLE_TXT = {"quick": "case styles lower / Capitalized (c_kw: also upper)",
             "thorough": "case styles upper / lower / Capitalized / aLtErNaTiNg / upper with one lowered letter at symbolic position 0..7"}


def _env(ctx, tier):
    e = {"VF_CTX": CTX.index(ctx)}
    if tier == "thorough":
        e.update({"VF_SMIN": 0, "VF_SMAX": 4, "VF_NPOS": 8})
    return e


def lex_obs(pid, cond, ctxs, tier, label):
    t = 240 if tier == "quick" else 1500
    return [Ob(f"{pid}.{label}/{c}", "lex", cond, _env(c, tier), t, FN,
               f"context = flag state after the real lexer ran over the context prefix; all 117 vocabulary words (112 grammar keywords + 5 identifiers, symbolic index); {STYLE_TXT[tier]}")
            for c in ctxs]


def mask_obs(pid, ctxs, tier):
    """all 2^n case masks, words of <= 6 letters, word range split over processes (thorough only)"""
    obs = []
    for c in ctxs:
        for lo in range(0, 117, 20):
            e = {"VF_CTX": CTX.index(c), "VF_WLO": lo, "VF_WHI": lo + 20, "VF_MAXLEN": 6}
            obs.append(Ob(f"{pid}.mask/{c}[{lo}:{lo+20}]", "lex", "c_case_mask", e, 1500, FN,
                          "every one of the 2^n case masks of each vocabulary word of <= 6 letters in the index range"))
    return obs
