"""C06 obligations."""
from props._lexobs import NAME_CTX, lex_obs
from vf.ch import Ob

ASSUMPTIONS = ["lex->act contract: ID / DQ_STRING token values are the written words",
               "LR: every name position reduces through the single `id` production (C06.flow, LR engine)"]
OUTSIDE = ["names containing blanks, dots or further delimiter characters inside their delimiters",
           "table / schema / index names that coincide with grammar keywords (the statement's keyword clause is about column names)",
           "positions that use a raw ID terminal (option values, in_statement)"]
FN_ID = ["simple_ddl_parser/ddl_parser.py:DDLParser.p_id"]
FN_COPY = ["simple_ddl_parser/dialects/sql.py:p_t_name, p_seq_name, p_constraint, p_pid, p_type_name"]


def obligations(tier):
    obs = lex_obs("C06", "c_name", NAME_CTX, tier, "lex")
    t = 120 if tier == "quick" else 900
    obs.append(Ob("C06.norm/p_id", "c06", "c_norm", {"VF_MAXB": 2 if tier == "quick" else 4}, t, FN_ID,
                  "identifier = one of 4 delimiter styles (none, \"..\", `..`, [..]) around a symbolic body of 1..2 [thorough 4] characters free of delimiter characters; normalize_names symbolic"))
    obs.append(Ob("C06.copy/names", "c06", "c_copy", {}, t, FN_COPY, "three opaque symbolic strings of length <= 3; 6 action forms (symbolic)", api=False))
    for ns, nst in ((2, '"n",n,[n]'), (3, "x,`x`,X")):
        for i in (9, 17):
            obs.append(Ob(f"C06.flow/names={nst}/item1={i}", "drv", "c_items", {"VF_I1": i, "VF_NAMES": ns}, 300 if tier == "quick" else 900,
                          ["real LALR driver + actions + BaseData post-processing (harness/drv.py c_items)"],
                          f"delimited / differently cased column names {nst} in column definitions, key lists, constraints and foreign keys are reported verbatim and never confused with each other"))
    obs.append(Ob("C06.norm/pipeline", "pipe", "c_norm_pipe", {}, 300 if tier == "quick" else 900,
                  ["whole pipeline (harness/pipe.py) with normalize_names toggled on the shared parser object"],
                  "12 catalogued statements with delimited names in every naming position, incl. delimited names spelling SQL words (type, key, comment, index, table) inside ALTER statements (symbolic index): output with normalize_names=True == output without it, delimiters stripped"))
    obs.append(Ob("C06.pipe/ident-chars", "pipe", "c_ident_rel", {}, 400 if tier == "quick" else 1200,
                  ["whole pipeline (harness/pipe.py): pre-processor incl. comment handling, lexer, LALR driver, actions, output"],
                  "18 catalogued identifiers (letters, digits, _ $ # @ -, trailing / inner '#', mixed case, delimited forms containing '#') x 12 name positions "
                  "(table, schema, column in definition / PK list / UNIQUE list / index list / ALTER DROP / own line, constraint, index, sequence, referenced table) - both symbolic; "
                  "relational oracle: result == result for the neutral name zz, renamed"))
    obs.append(Ob("C06.norm/constraint-named-key", "drv", "c_items", {"VF_I1": 18, "VF_NAMES": 0, "VF_NORM": 1}, 300 if tier == "quick" else 900,
                  ["real LALR driver + actions + BaseData post-processing (harness/drv.py c_items)"],
                  "normalize_names=True: UNIQUE KEY `key` (a, b) + any second item: the constraint keeps its name, only the delimiters go"))
    return obs


def solver_queries(tier, scratch):
    from vf import rx_queries as rq
    n = 16 if tier == "quick" else 40
    return rq.identifier_queries(scratch, "C06", n) + rq.delimited_queries(scratch, "C06")
