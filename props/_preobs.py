"""Shared text for CH-pre obligations."""
FN_PRE = ["simple_ddl_parser/parser.py:Parser.parse_data, pre_process_data, process_line, pre_process_line, catch_comment_or_process_line, "
          "process_inline_comments, process_line_before_comment, process_in_comment, check_line_on_skip_words, parse_set_statement, process_set, "
          "check_new_statement_start, add_line_to_statement, process_statement, parse_statement, set_default_flags_in_lexer"]
PRE_ASSUME = ["stub: yacc.parse(statement) replaced by the identity {'stmt': statement} - what the grammar does with a statement is the LR/CH-act obligations' subject",
              "the script is handed over in the unicode_escape form Parser.__init__ produces (newline = backslash n); the C-level encoder is outside",
              "lines are drawn by symbolic index from the catalogues of harness/pre.py (the regular expressions run on concrete text per path)"]
