"""C16 obligations."""
from props._lexobs import lex_obs
from vf.ch import Ob

FN = ["simple_ddl_parser/ddl_parser.py:DDLParser.p_error, DDLParserError", "simple_ddl_parser/parser.py:Parser.run (output_mode validation; parse_data stubbed)",
      "simple_ddl_parser/output/dialects.py:dialect_by_name"]
ASSUMPTIONS = ["PLY calls p_error(token) on a syntax error and p_error(None) when the error is detected at the end of input; no `error` productions exist, so a silent error yields None",
               "supported DDL never reaches p_error: the union of the no-error results of the CH-drv / LR obligations of C01, C02, C04, C17 (their fragments)",
               "silent only influences p_error (read of self.silent nowhere else - checked by grep at design time)"]
OUTSIDE = ["which unsupported statements exist", "characters that start no token: t_error raises irrespective of silent (recorded finding, RX obligation)"]


def obligations(tier):
    t = 120 if tier == "quick" else 600
    return [
        Ob("C16.perr/p_error", "misc", "c_perror", {}, t, FN, "silent symbolic; offending token present or None (error at end of input)"),
        Ob("C16.silent/parse_from_file", "misc", "c_plumb", {}, t, ["simple_ddl_parser/ddl_parser.py:parse_from_file"],
           "the silent setting given through parser_settings reaches the constructor on every call and the caller's dict is not modified (replay: two calls sharing one settings dict)"),
        Ob("C16.mode/unknown", "misc", "c_mode", {}, t, FN, "output_mode any string of length <= 4 outside the 15 names; script yields nothing / a sequence / a table (symbolic); group_by_type symbolic"),
        Ob("C16.mode/near-miss", "misc", "c_mode_near", {}, max(t, 300), FN, "each of the 15 valid names (symbolic index) in 7 near-miss spellings (upper, Capitalized, one upper-cased letter at a symbolic position, "
           "leading / trailing blank, last letter dropped / added) and None; script yields nothing / a sequence / a table; group_by_type symbolic"),
        Ob("C16.mode/valid", "misc", "c_valid_mode", {}, t, FN, "each of the 15 documented names (symbolic index) x script yields nothing / a sequence / a table", api=False),
    ] + [
        Ob(f"C16.reach/after-unterminated/{n}", "pre", "c_reach3", {"VF_K1": k}, 300 if tier == "quick" else 900,
           ["simple_ddl_parser/parser.py:Parser.parse_data, process_line, check_line_on_skip_words, check_new_statement_start, process_statement (yacc.parse replaced by the identity)"],
           f"three lines: first = `{n}` without a terminating ';' (skipped statement), second and third any of the 27 catalogued lines (GO, unsupported statements such as COMMENT ON / TRUNCATE / MERGE, "
           "supported ones; symbolic): every later statement is handed to the parser exactly as it is alone - so an unsupported one reaches p_error (C16.perr) whatever precedes it")
        for k, n in ((23, "INSERT INTO t VALUES (1)"), (25, "DELETE FROM t"))
    ] + lex_obs("C16", "c_case", ["alter_body", "alter_add", "alter_drop", "alter_rename", "alter_modify"], tier, "supported-in-any-case")


def solver_queries(tier, scratch):
    import json, os
    from vf import rx_queries as rq
    from vf.scratch import VERIF
    known = set()
    for e in json.load(open(os.path.join(VERIF, "known_findings.json")))["findings"]:
        if e["property"] == "C16" and e.get("status") == "open":
            known |= set(e.get("uncovered_characters", []))
    out, _ = rq.first_char_queries(scratch, "C16", known)
    return out
