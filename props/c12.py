"""C12 obligations: documented shape + JSON, one process per output mode."""
from vf.ch import Ob
from props.c10 import ASSUMPTIONS, FN, MODES  # noqa

FN12 = FN + ["simple_ddl_parser/parser.py:Parser.run (parse_data stubbed; json_dump branch)"]
OUTSIDE = ["what json.dumps does internally (C boundary: executed concretely on each path)",
           "entity kinds other than table/sequence in this harness (their pass-through is C13's)"]


def obligations(tier):
    obs = []
    t = 200 if tier == "quick" else 900
    for m in MODES:
        obs.append(Ob(f"C12.shape/{m}", "c10", "c_json", {"VF_MODE": m}, t, FN12,
                      "1..2 columns, schema or not, optional index, ALTER FK none/1/2 cols, optional DROP TABLE entry, group_by_type symbolic; keys/types of the table entry, "
                      "primary_key subset of column names, pure-Python jsonable(), json_dump=True == json.dumps(result)"))
    for i in (15, 16, 2):
        obs.append(Ob(f"C12.pk/item1={i}", "drv", "c_items", {"VF_I1": i, "VF_NAMES": 0}, 300 if tier == "quick" else 900,
                      ["real LALR driver + actions + BaseData post-processing (harness/drv.py c_items)"],
                      "primary_key is a list of the table's column names also when key parts carry ASC / DESC: item #%d + any second table-level item (symbolic)" % i))
    obs.append(Ob("C12.pk/normalize-names", "pipe", "c_norm_pipe", {}, 300 if tier == "quick" else 900,
                  ["whole pipeline (harness/pipe.py)"], "primary_key names the table's columns also under normalize_names=True with a CHECK before the key list"))
    obs.append(Ob("C12.pk/drop-exact-name", "c04", "c_drop_exact", {}, 300 if tier == "quick" else 900,
                  ["output/base_data.py:alter_drop_columns"], "after DROP COLUMN of columns whose names contain the key column's name, primary_key still names existing columns"))
    return obs
