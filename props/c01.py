"""C01 obligations."""
from props._lexobs import lex_obs
from vf.ch import Ob

FN_DRV = ["ply.yacc.LRParser.parse with the parser's current LALR tables (stub lexer)",
          "simple_ddl_parser/dialects/sql.py:p_create_table, p_t_name, p_table_name, p_column, p_c_type, p_defcolumn, get_column_properties, set_property, "
          "p_default, pre_process_default, p_null, p_ref, extract_references, process_references_with_properties, p_expression_table, set_column_size, get_size",
          "simple_ddl_parser/ddl_parser.py:p_id", "simple_ddl_parser/output/core.py:Output.format", "output/base_data.py:BaseData.__post_init__, populate_keys, to_dict"]
FN_ACT = ["simple_ddl_parser/dialects/sql.py:p_default, pre_process_default, p_defcolumn, p_column, set_column_size, get_size, check_type_parameter"]
ASSUMPTIONS = ["lex->act contract: token types as in the item forms; ID values are not keywords of their position (C01.lex / C05 / C06 lemmas)",
               "a column's reference is accepted as {'column': x} or {'columns': [x]} (the latter shape is pinned by tests/test_simple_ddl_parser.py::test_reference_not_null)",
               "int() uninterpreted in the value lemmas (trusted CPython)",
               "any number of columns / options: the LR step lemma returns to the same stack after each item (paper argument until the LR engine lands); the solver covers 3 columns x 2 options"]
OUTSIDE = ["two-word types, arrays, <...> types (C09)", "CHECK / COMMENT / COLLATE / GENERATED options", "default expressions with calls or casts; two DEFAULT or two REFERENCES options on one column",
           "DEFAULT <identifier> directly followed by REFERENCES (the `default id` production continues the default)", "sizes of more than 2 [thorough 3] digits under the regex-based size test"]
TYPES = ["int", "varchar(n)", "decimal(p,s)", "s.T"]
OPTS = 14


def obligations(tier):
    obs = []
    t = 200 if tier == "quick" else 900
    for ty, tn in enumerate(TYPES):
        for o1 in range(OPTS):
            obs.append(Ob(f"C01.drv/{tn}/o1={o1}", "drv", "c_column", {"VF_TYPE": ty, "VF_O1": o1}, t, FN_DRV,
                          f"3-column table; column under test at symbolic position 0..2, type {tn}, first option = catalogue #{o1}, second option any of 12 (symbolic)"))
    if tier == "thorough":
        for ty, tn in ((0, "int"), (1, "varchar(n)")):
            for o1 in range(OPTS):
                obs.append(Ob(f"C01.drv3/{tn}/o1={o1}", "drv", "c_column3", {"VF_TYPE": ty, "VF_O1": o1}, 1500, FN_DRV,
                              f"as C01.drv with three options: first = catalogue #{o1}, second and third any of 12 (symbolic), position symbolic"))
    mv = {"quick": (4, 3, 5, 2), "thorough": (6, 5, 8, 3)}[tier]
    obs.append(Ob("C01.val/default_word", "drv", "c_default", {"VF_DKIND": 0, "VF_MAXV": mv[0]}, t, FN_ACT, f"DEFAULT <word>: any lower-case word of 1..{mv[0]} letters except the keyword for"))
    obs.append(Ob("C01.val/default_literal", "drv", "c_default", {"VF_DKIND": 1, "VF_MAXV": mv[1]}, t, FN_ACT, f"DEFAULT '<text>': any text of 1..{mv[1]} characters without a quote"))
    obs.append(Ob("C01.val/default_number", "drv", "c_default", {"VF_DKIND": 2, "VF_MAXV": mv[2], "VF_UF": 1}, t, FN_ACT, f"DEFAULT <digits>: any digit string of 1..{mv[2]} digits -> int(text), int uninterpreted"))
    obs.append(Ob("C01.val/size_n", "drv", "c_size", {"VF_SFORM": 0, "VF_MAXV": mv[3], "VF_UF": 1}, t, FN_ACT, f"(n): digit string of 1..{mv[3]} digits"))
    obs.append(Ob("C01.val/size_n/interpreted", "drv", "c_size", {"VF_SFORM": 0, "VF_MAXV": 2, "VF_UF": 0}, t, FN_ACT, "(n): every digit string of 1..2 digits incl. 0, 00, 07 with the interpreted int(): size == its value, an int (a size of 0 is a size)"))
    obs.append(Ob("C01.val/size_p_s/interpreted", "drv", "c_size", {"VF_SFORM": 1, "VF_MAXV": 1, "VF_UF": 0}, t, FN_ACT, "(p, s): every pair of one-digit numerals incl. 0 with the interpreted int()"))
    obs.append(Ob("C01.val/size_p_s", "drv", "c_size", {"VF_SFORM": 1, "VF_MAXV": mv[3], "VF_UF": 1}, t, FN_ACT, f"(p, s): digit strings of 1..{mv[3]} digits each"))
    obs.append(Ob("C01.pipe/default-literal", "pipe", "c_literal", {"VF_PI": 0}, 300 if tier == "quick" else 900,
                  ["whole pipeline (harness/pipe.py) on CREATE TABLE t (p int, k varchar(20) DEFAULT <literal> NOT NULL, q int)"],
                  "37 catalogued string literals as the DEFAULT of the middle column (symbolic index): the default comes back verbatim", known="respaced-literal"))
    obs += lex_obs("C01", "c_kw", ["col_later", "col_after_sized", "option_pos", "option_pos2", "after_not", "after_default"], tier, "lex")
    obs += lex_obs("C01", "c_name", ["col_first", "col_later", "col_after_sized", "ref_list_first", "ref_list_later", "default_paren"], tier, "lexname")
    return obs


def solver_queries(tier, scratch):
    from vf import lr_lemmas
    from vf import rx_queries as rq
    return rq.identifier_queries(scratch, "C01", 16 if tier == "quick" else 40) + rq.numeral_queries(scratch, "C01") + lr_lemmas.run_lemmas("C01", tier, scratch)
