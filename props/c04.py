"""C04 obligations: one process per statement kind."""
from vf.ch import Ob

KINDS = ["add_column", "drop_column", "rename_column", "modify_column", "add_pk", "add_unique_1", "add_unique_2", "add_check",
         "add_default_for", "add_fk_2", "create_index", "drop_first", "rename_first", "modify_first", "modify_last", "rename_case"]
FN = ["simple_ddl_parser/output/core.py:Output.format, process_statement_data, process_alter_and_index_result, add_alter_to_table, add_index_to_table, "
      "clean_up_index_statement, get_table_from_tables_data", "simple_ddl_parser/utils.py:get_table_id, normalize_name",
      "simple_ddl_parser/output/base_data.py:append_statement_information_to_table, prepare_alter_columns, create_alter_column_references, alter_drop_columns, "
      "alter_rename_columns, alter_modify_columns, set_alter_to_table_data, set_unique_columns_from_alter, set_default_columns_from_alter, process_check_in_statement"]
ASSUMPTIONS = ["front end: the statement dicts are produced at import by the real parser from concrete DDL for every catalogued (kind, schema spelling, name spelling)",
               "execution-mode stub: BaseData.filter_out_output runs natively on concrete arguments",
               "matching rule of the property: schema and name equal after removing one pair of delimiters and folding case"]
OUTSIDE = ["back-tick delimited table names in ALTER / INDEX addresses", "three-part names, USING INDEX TABLESPACE, Oracle MODIFY without COLUMN",
           "a foreign-key ALTER naming a column the table does not have (a stub column is appended: recorded behaviour, excluded class kf_fk_on_absent_column)",
           "ADD DEFAULT ... FOR with a comma-separated column list"]


def obligations(tier):
    t = 400 if tier == "quick" else 1500
    n = 3 if tier == "quick" else 4
    obs = [Ob(f"C04.route/{k}", "c04", "c_route", {"VF_KIND": i, "VF_NSP": n, "VF_NSC": n}, t, FN,
              f"target table spelled with one of {n} name spellings x {n} schema spellings, statement addressed with an independent pair (all symbolic); "
              "other table = same name in another schema / other name / near name t$ / a quoted name spelling \"schema.t\"; table order symbolic")
           for i, k in enumerate(KINDS)]
    obs.append(Ob("C04.seq/3_alters", "c04", "c_seq", {}, t, FN, "three ALTER statements, each any of 7 kinds (symbolic): add / rename / drop / foreign key, on one table"))
    obs.append(Ob("C04.order/redefinition", "c04", "c_redefine", {}, t, FN,
                  "CREATE TABLE t; [CREATE INDEX on t]; [ALTER TABLE t ADD]; then t defined again (DROP + CREATE / CREATE / CREATE IF NOT EXISTS): the statements stay with the earlier table"))
    obs.append(Ob("C04.effect/drop-exact-name", "c04", "c_drop_exact", {}, t, FN,
                  "two DROP COLUMN statements among columns whose names contain one another (id, customer_id, cust, order_id): exactly the named ones go; primary_key unchanged"))
    obs.append(Ob("C04.effect/normalize-names-delimited-words", "pipe", "c_norm_pipe", {}, t, ["whole pipeline (harness/pipe.py) with normalize_names toggled on the shared parser object"],
                  "12 catalogued scripts incl. ALTER DROP / ADD UNIQUE / RENAME / DEFAULT FOR / ADD / MODIFY on delimited names that spell SQL words ([type], [key], `key`, [comment], [index], [table]) "
                  "(symbolic index): with normalize_names=True the ALTER has the same effect, names without their delimiters"))
    obs.append(Ob("C04.norun/cross_run", "c04", "c_no_cross_run", {"VF_KIND": 0, "VF_NSP": n}, t, FN,
                  "two consecutive Output.format runs: an ALTER in the second run must not find the table of the first"))
    return obs
