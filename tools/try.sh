#!/bin/sh
# tools_try.sh <patch.diff> <check args...> : apply a seeded change to /repo, run a check, undo.
P=$1; shift
git -C /repo apply "$P" || exit 3
cd /verif && ./check "$@"; rc=$?
git -C /repo checkout -- .
git -C /repo status --short
echo "exit=$rc"
