#!/usr/bin/env python3
"""Design-time helper (NOT run by the checks): records, from the pinned commit, what each
catalogued clause / statement yields alone, into /verif/catalog/*.json.  The frozen files are
the regression oracles of C11 / C18 (reviewed by hand against README and tests when created).
Run with: cd /tmp && PYTHONPATH=/repo /venv/bin/python /verif/tools/freeze_catalog.py"""
import json
from simple_ddl_parser import DDLParser

BODY = "CREATE TABLE t (a int, b varchar(5) NOT NULL, PRIMARY KEY (a))"
base = DDLParser(BODY + ";").run()[0]
CLAUSES = [
 ("hql", "STORED AS PARQUET"), ("hql", "LOCATION 's3://b/p'"), ("hql", "ROW FORMAT DELIMITED FIELDS TERMINATED BY ','"),
 ("hql", "FIELDS TERMINATED BY '|'"), ("hql", "TBLPROPERTIES ('k'='v')"), ("hql", "PARTITIONED BY (d string)"),
 ("hql", "CLUSTERED BY (a) INTO 4 BUCKETS"), ("hql", "ROW FORMAT SERDE 'x.y.Z'"), ("hql", "COMMENT 'tbl'"),
 ("mysql", "ENGINE=InnoDB"), ("mysql", "DEFAULT CHARSET=utf8"), ("mysql", "AUTO_INCREMENT=7"),
 ("oracle", "TABLESPACE ts1"), ("oracle", "STORAGE (INITIAL 1 NEXT 2)"), ("oracle", "ORGANIZATION INDEX"),
 ("redshift", "DISTSTYLE KEY"), ("redshift", "DISTKEY (a)"), ("redshift", 'DISTKEY ("a")'),
 ("snowflake", "CLUSTER BY (a)"), ("snowflake", "COMMENT = 'c'"), ("snowflake", "DATA_RETENTION_TIME_IN_DAYS = 3"),
 ("snowflake", "CHANGE_TRACKING = TRUE"), ("snowflake", "WITH TAG (k = 'v')"), ("snowflake", "WITH TAG (a='1', b='2', c='3')"),
 ("snowflake", "COMMENT=\"it's ok\""), ("snowflake", "DATA_RETENTION_TIME_IN_DAYS=3"), ("snowflake", "CHANGE_TRACKING=TRUE"),
 ("mysql", "COMMENT=\"o'k\""),
 ("mssql", "ON [PRIMARY]"), ("mssql", "TEXTIMAGE_ON [FG2]"), ("mssql", "WITH (PAD_INDEX = OFF)"),
 ("bigquery", "OPTIONS (description='d')"), ("bigquery", "PARTITION BY DATE(a)"),
 ("postgres", "INHERITS (base)"), ("postgres", "PARTITION BY RANGE (a)"),
 ("spark_sql", "USING parquet"), ("ibm_db2", "IN ts2"), ("ibm_db2", "INDEX IN ts3"), ("ibm_db2", "ORGANIZE BY ROW"),
]
out = []
for mode, cl in CLAUSES:
    t = DDLParser(f"{BODY} {cl};").run()[0]
    extras = {k: v for k, v in t.items() if k not in base or t[k] != base[k]}
    tm = DDLParser(f"{BODY} {cl};").run(output_mode=mode)[0]
    flat = dict(extras.get("table_properties", {}))
    flat.update({k: v for k, v in extras.items() if k != "table_properties"})
    top = {k: tm[k] for k in flat if k in tm and tm[k] == flat[k]}
    out.append({"mode": mode, "clause": cl, "sql_extras": extras, "keys": flat, "top_level_in_owning_mode": sorted(top)})
json.dump({"_note": "frozen from the pinned commit by tools/freeze_catalog.py; regression oracle for C11", "body": BODY, "clauses": out},
          open("/verif/catalog/clauses.json", "w"), indent=1)

STMTS = [
 "CREATE TYPE s.ty AS ENUM ('a', 'b', 'c');", "CREATE TYPE ty2 AS OBJECT (x int, y varchar(3));", "CREATE TYPE ty3 AS TABLE (x int, y int);", "CREATE TYPE ty5 AS TABLE (x int, y varchar(3), z int, w int);",
 "CREATE OR REPLACE TYPE ty4 AS ENUM ('z');",
 "CREATE DOMAIN s.d1 AS varchar(3);", "CREATE DOMAIN d2 AS ENUM ('p', 'q');", "CREATE DOMAIN d4 AS decimal(10);",
 "CREATE SCHEMA sc1;", "CREATE SCHEMA IF NOT EXISTS sc2;", "CREATE SCHEMA sc3 AUTHORIZATION joe;", "CREATE SCHEMA sc4 COMMENT 'cm';",
 "CREATE SCHEMA IF NOT EXISTS sc5 COMMENT='cm2';",
 "CREATE DATABASE db1;",
 "CREATE TABLESPACE ts1;", "CREATE BIGFILE TABLESPACE ts2;", "CREATE TEMPORARY TABLESPACE ts3;", "CREATE SMALLFILE TEMPORARY TABLESPACE ts4;",
 "CREATE BIGFILE temporary TABLESPACE ts5;", "CREATE temporary TABLESPACE ts6;",
]
res = []
for s in STMTS:
    try:
        r = DDLParser(s).run()
    except Exception as e:
        r = "EXC " + repr(e)
    res.append({"stmt": s, "alone": r})
json.dump({"_note": "frozen from the pinned commit by tools/freeze_catalog.py; regression oracle for C18", "statements": res},
          open("/verif/catalog/entities.json", "w"), indent=1)
for x in res:
    print(x["stmt"], "=>", x["alone"])
