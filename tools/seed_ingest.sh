#!/bin/sh
# tools/seed_ingest.sh <out-dir> <seed-id>: copy a sub-agent's change (patch.diff demo.py notes.md) to seeded/<seed-id>/ and validate it.
SRC=$1; SID=$2
D=/verif/seeded/$SID
mkdir -p $D
cp $SRC/patch.diff $SRC/notes.md $D/ || exit 9
[ -f $SRC/demo.py ] && cp $SRC/demo.py $D/
/verif/tools/seed_validate.sh $D
