#!/bin/sh
# tools/run_all.sh [tier]: run every claimed check on the unchanged tree (regenerates evidence).
cd /verif
T=${1:-quick}
for p in $(python3 -c "import json;print(' '.join(c['property_id'] for c in json.load(open('MANIFEST.json'))['checks']))"); do
  s=$(date +%s); ./check $p --tier $T > /tmp/runall-$p.log 2>&1; rc=$?
  echo "$p rc=$rc $(( $(date +%s) - s ))s $(tail -1 /tmp/runall-$p.log)"
done
