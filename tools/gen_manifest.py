#!/usr/bin/env python3
"""Regenerates /verif/MANIFEST.json from the table below (keeps it schema-valid)."""
import json, os
V = os.path.dirname(os.path.dirname(os.path.abspath(__file__)))
ALL = [f"C{i:02d}" for i in range(1, 21)]

CLAIMED = {
 "C17": dict(
   technique="CrossHair symbolic execution (z3) of the real p_expression_seq / LALR driver per option form; uninterpreted-function abstraction of int(); reachability twins; public-API replay",
   text="Bounded symbolic checking: for each of the 12 option forms the real semantic action and the real LALR driver+tables are executed by CrossHair over all signs / digit strings (interpreted int: <=2 digits quick, <=3 thorough, plus the 19-digit band around 2**63; uninterpreted int: any text up to 6/10 chars) and over arbitrary pre-states of the sequence dict; verdict 'Confirmed over all paths' or a counterexample replayed through DDLParser(...).run().",
   note="Trusted: CPython int(), PLY driver, CrossHair models, z3; composition of one-option steps into any order/number rests on the LR step lemma (paper argument until the LR engine lands). Outside: numerals beyond the digit bounds under interpreted int, options not named in the property.",
   design="3/C17"),
}

NA_REASON = {
 "C15": "concurrency and PLY process-global aliasing: thread schedules and object-identity histories are not data the available solver engines (CrossHair single-threaded per-path re-execution, z3 over tables) can quantify over; see DESIGN.md section 4",
}

def main():
    checks = []
    for pid in ALL:
        if pid not in CLAIMED: continue
        c = CLAIMED[pid]
        checks.append({
            "property_id": pid,
            "quick_cmd": f"./check {pid} --tier quick",
            "thorough_cmd": f"./check {pid} --tier thorough",
            "evidence_file": f"/verif/evidence/{pid}.json",
            "replay_cmd_template": f"./check {pid} --replay {{path}}",
            "engine": "vf",
            "level_claimed": {"category": "model_checking", "text": c["text"], "design_ref": c["design"]},
            "level_note": c["note"],
            "technique": c["technique"],
        })
    na = [{"property_id": p, "reason": NA_REASON.get(p, "check not built yet in this round (planned in DESIGN.md section 3); nothing is claimed")}
          for p in ALL if p not in CLAIMED]
    m = {
        "version": 1,
        "setup_cmd": "./setup.sh",
        "hooks": {"guard": "SIMPLE_DDL_PARSER_VERIF", "enable": "no source hooks are needed: harnesses call the real functions of a scratch copy of /repo's working tree and wrap bound methods from outside",
                  "baseline_off_cmd": "cd /repo && /venv/bin/python -m pytest -ra -q -p no:cacheprovider --timeout=900 --continue-on-collection-errors",
                  "source_commits": [], "add_only": True},
        "engines": [
            {"name": "vf", "path": "/verif/vf", "serves_properties": sorted(CLAIMED), "kind_free_text": "CrossHair (z3) symbolic execution of real lexer rules / semantic actions / output code, one process per structural choice; z3 bounded model checking of the regenerated LALR automaton; z3 regex inclusion for token rules; counterexamples replayed through the public API"},
        ],
        "checks": checks,
        "not_applicable": na,
        "notes": "All checks copy /repo's working tree to a scratch directory, regenerate every encoding from it, and never import from /repo directly.",
    }
    json.dump(m, open(os.path.join(V, "MANIFEST.json"), "w"), indent=1)
    print("MANIFEST.json:", len(checks), "checks,", len(na), "not_applicable")

if __name__ == "__main__":
    main()
