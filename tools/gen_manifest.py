#!/usr/bin/env python3
"""Regenerates /verif/MANIFEST.json from the table below (keeps it schema-valid)."""
import json, os
V = os.path.dirname(os.path.dirname(os.path.abspath(__file__)))
ALL = [f"C{i:02d}" for i in range(1, 21)]

CH = "CrossHair symbolic execution (z3) of the real functions on a scratch copy of the working tree, one process per structural choice; reachability twin per condition; counterexamples replayed concretely and through the public API"
CLAIMED = {
 "C03": dict(
   technique=CH + "; frame lemma over an arbitrary lexer flag state",
   text="Bounded symbolic checking. C03.reset: with every lexer flag symbolic (arbitrary leftover of the previous statement) the real set_default_flags_in_lexer() followed by the real token rule gives exactly the pristine result for each of the 117 vocabulary words - so no lexical mode leaks into the next statement.",
   note="Trusted: lexer determinism in (word, flags); PLY creating fresh stacks per parse(). Line-level statement splitting (CH-pre) is a separate obligation family; lexer.state of the input.regex path is outside.",
   design="3/C03"),
 "C05": dict(
   technique=CH + "; relational (cased vs upper-case spelling) postcondition over token type, value and resulting lexer flags",
   text="Bounded symbolic checking of the real lexer rules in 28 lexical contexts: for every vocabulary word (112 grammar keywords + identifiers) and every case style in the tier's range the token type, keyword value and resulting flag state equal those of the upper-case spelling, identifiers keep their spelling. Thorough adds all 2^n masks for words of <= 6 letters in six contexts.",
   note="Trusted: PLY master-regex dispatch, CrossHair/z3. Assumes blank-separated words reach the lexer (whitespace / line-layout obligations of CH-pre). A lexer-level difference is reported only if some completion of the context shows a different public result.",
   design="3/C05"),
 "C06": dict(
   technique=CH + "; name-position typing lemma per context, p_id delimiter lemma, object-identity lemma for name-copying actions",
   text="Bounded symbolic checking: in 10 name contexts (column positions, key / unique / foreign-key / reference / index column lists at depth 1-2, after a dot) every vocabulary word outside the 13 excluded openers, in the tier's case styles, is an ID token with its exact spelling; p_id with symbolic body x 4 delimiter styles x normalize_names; name-copying actions return the very objects they got.",
   note="Trusted: token-value contract, LR flow of names through the single id production (paper until the LR lemma lands). Outside: names with blanks/dots inside delimiters, keyword-shaped table/schema names.",
   design="3/C06"),
 "C10": dict(
   technique=CH + "; per-mode cross-mode relational postcondition against output_mode='sql'",
   text="Bounded symbolic checking of the real Output/TableData/BaseData/dialect classes, one process per output mode (15): a table with a symbolic choice among the 41 catalogued dialect keys (value kind str/list/dict), and table + sequence + optional CREATE INDEX + optional ALTER ADD FOREIGN KEY (1-2 columns, optional schema): no exception, same entities, common fields equal to mode sql, key at top level exactly in its documented modes.",
   note="Trusted: act->out statement shapes copied from the real parser; catalog/dialect_keys.json as the documentation of modes; stubs: dialect class memoised per process, filter_out_output executed natively on concrete arguments. Outside: >2 columns, per-dialect column extras.",
   design="3/C10"),
 "C12": dict(
   technique=CH + "; shape predicate + pure-Python jsonable() + json_dump equality through the real run()",
   text="Bounded symbolic checking per output mode (15): through the real Parser.run (parse_data stubbed) and Output, for symbolic column count, schema, index, ALTER FK kind and group_by_type: every documented key present with the stated Python types, primary_key within the column names, whole result JSON-serialisable, json_dump=True equal to json.dumps of the plain result.",
   note="Trusted: as C10; json.dumps itself is executed concretely (C boundary). Outside: entity kinds other than table/sequence in this harness.",
   design="3/C12"),
 "C13": dict(
   technique=CH + "; flat vs grouped run() compared for symbolic entity kinds",
   text="Bounded symbolic checking of the real Parser.run/Output.format/group_by_type_result: 0..3 entities whose kinds are symbolic (9 kinds incl. SET properties with possibly empty value and comments), modes sql/bigquery/hql (thorough: all 15): grouped result equals the order-preserving regrouping of the flat result, six buckets always present.",
   note="Trusted: statement shapes copied from the real parser; per-entity loop extends beyond 3 entities by paper induction. Outside: an entity with two marker keys.",
   design="3/C13"),
 "C17": dict(
   technique=CH + "; uninterpreted-function abstraction of int(); real LALR driver behind a stub lexer; lexer keyword lemma in the sequence context",
   text="Bounded symbolic checking: for each of the 12 option forms the real semantic action and the real LALR driver+tables are executed by CrossHair over all signs / digit strings (interpreted int: <=2 digits quick, <=3 thorough, plus the 19-digit band around 2**63; uninterpreted int: any text up to 6/10 chars) and over arbitrary pre-states of the sequence dict; the ten option words are typed as keywords in any case style in the sequence context.",
   note="Trusted: CPython int(), PLY driver, CrossHair models, z3; composition of one-option steps into any order/number rests on the LR step lemma (paper argument until the LR engine lands). Outside: numerals beyond the digit bounds under interpreted int, options not named in the property.",
   design="3/C17"),
}


CLAIMED.update({
 "C01": dict(
   technique=CH + "; real LALR driver + tables behind a stub lexer (CH-drv); uninterpreted int(); z3 regex queries on the token rules",
   text="Bounded symbolic checking: a column under test (4 type forms) at a symbolic position of a 3-column table with two options chosen by symbolic indices from a 12-option catalogue (any order) goes through the real LALR driver, semantic actions and output post-processing and must equal a reference model; DEFAULT words / literals / numerals and size numerals are symbolic strings at action level (int uninterpreted); lexer keyword and name lemmas in the column contexts; z3 decides that every identifier word is one ID token (no earlier token rule splits it).",
   note="Trusted: token-type contract between lexer lemma and driver harness; any number of columns/options by the LR step argument on paper (the solver covers 3 columns x 2 options). Outside: <...>/array types, CHECK/COMMENT/COLLATE/GENERATED options, default expressions.",
   design="3/C01"),
 "C02": dict(
   technique=CH + "; real LALR driver + tables behind a stub lexer against a reference model of keys / uniques / checks / references",
   text="Bounded symbolic checking: three columns (four name sets incl. names differing only by case or delimiters; inline PRIMARY KEY / UNIQUE / named REFERENCES symbolic) followed by two table-level items chosen by symbolic indices among 18 (PRIMARY KEY 1-3 columns incl. ASC/DESC parts, named PK, UNIQUE 1-3 columns, named UNIQUE, FOREIGN KEY 1-3 columns with ON DELETE/UPDATE and schema, named FK, CHECK, named CHECK) through the real driver, actions and BaseData post-processing: primary_key, forced NOT NULL, unique flags, constraints, checks and references equal the reference model.",
   note="Trusted: README conventions for the reference model (UC_<cols>, named FK under constraints.references); more than two items by the LR step argument on paper. Outside: DEFERRABLE, MSSQL clustered PK, two-word ON UPDATE actions.",
   design="3/C02"),
 "C04": dict(
   technique=CH + "; front end executed concretely at import, real Output/BaseData under symbolic addressing",
   text="Bounded symbolic checking of the real Output/BaseData: for each of 11 statement kinds (add/drop/rename/modify column, ADD PRIMARY KEY / UNIQUE 1 and 2 columns / CHECK / DEFAULT FOR / FOREIGN KEY 2 columns, CREATE INDEX) the statement addressed with a symbolic (schema spelling, name spelling) reaches exactly the table whose own spelling, schema and position are symbolic when both agree modulo delimiters and case, applies the declared effect, leaves the other table (same name in another schema / other name / near name) untouched, and raises ValueError when nothing matches; sequences of three ALTERs (7 kinds) evolve the column list as a reference model; a later run does not see an earlier run's tables.",
   note="Trusted: statement dicts produced by the real parser at import; filter_out_output executed natively. Outside: back-tick delimited addresses, three-part names, FK ALTER on a column the table lacks.",
   design="3/C04"),
 "C08": dict(
   technique=CH + "; parser stubbed by the identity, relational postcondition against the comment-free script",
   text="Bounded symbolic checking of the real line/comment state machine of parser.py: one comment of each of 6 kinds (whole-line --, #, /* */, trailing --, trailing /* */, multi-line block) at a symbolic line position of a two-statement script with a symbolically chosen text (12 catalogued texts incl. ';'-terminated and GO/USE/INSERT/DELETE/ALTER/CREATE-leading): statements handed to the parser equal those of the comment-free script; everything else is the comments entry made of comment text only.",
   note="Trusted: identity stub for yacc.parse; input in unicode_escape form. Outside: quotes inside comments, comment markers inside literals, several comments per script.",
   design="3/C08"),
 "C14": dict(
   technique=CH + "; two parse_data()/Output runs on one object compared",
   text="Bounded symbolic checking: parse_data() twice on one parser object over scripts with a comment (kind fixed per process, position and text symbolic) and a symbolic last line: the second result equals the first and the first result object is unchanged; Output does not carry tables from one run to the next (C04.norun).",
   note="Trusted: identity stub for yacc.parse. Outside: file-system side effects, other processes / hash seeds beyond table generation (planned LR query).",
   design="3/C14"),
 "C16": dict(
   technique=CH + "; z3 regex first-character coverage of the token rules",
   text="Bounded symbolic checking: p_error raises DDLParserError iff silent is False, for a token and for end-of-input (None); run(output_mode=m) raises SimpleDDLParserException naming all 15 modes for every string m (<= 4 chars) outside them whatever the script yields, and accepts each of the 15; z3 enumerates the printable characters that can start no token (t_error raises on them regardless of silent): exactly the recorded finding {'^'}.",
   note="Trusted: PLY's p_error protocol; supported DDL never reaching p_error rests on the no-error results of the CH-drv obligations. Known finding: unknown symbol raises under silent=True.",
   design="3/C16"),
 "C19": dict(
   technique=CH + "; recording fakes for open / DDLParser / dump_data_to_file / parse_from_file",
   text="Bounded symbolic checking (partial claim): parse_from_file passes exactly the read content, encoding, parser settings, file_path and run arguments; run(dump=True, file_path=p) dumps exactly once, under p's base name, the very result it returns - also when it is empty - and nothing when dump is False; correct_extension accepts exactly names whose last extension is sql/ddl/hql/bql; run_for_file forwards --no-dump / -t / -o.",
   note="Outside (not encodable): codecs, real files and directories, the sdp process. Replays of counterexamples do use real temporary files.",
   design="3/C19"),
})

CLAIMED.update({
 "C20": dict(
   technique="z3 equality queries over the LALR action / goto / production tables (balanced decision trees over the index), fresh in-memory generation vs parsetab.py read as data vs the tables the parser object runs with under four cache states",
   text="The grammar's LALR tables are regenerated in memory from the working tree (ParserReflect -> Grammar -> LRGeneratedTable) and z3 is asked for an index at which (a) /repo's parsetab.py, when its signature matches, and (b) the tables and bound action functions of a parser constructed with a valid / missing / stale-signature (with deliberately different content) / older-version table file differ from it: unsat x3 per comparison over all 29 417 action entries, 1 209 gotos and 519 productions; results of four statements are compared across the cache states.",
   note="Trusted: PLY's generator (determinism across hash seeds is C14.hash), z3. Outside: I/O faults on the cache file. The four cache states are the whole configuration space and are enumerated; the equality is the solver's.",
   design="3/C20"),
})
CLAIMED["C14"]["text"] += " z3 decides that tables generated under other hash seeds equal those under seed 0 (C14.hash)."

PIPE = "CrossHair symbolic execution (z3) of the whole real pipeline (pre-processor, PLY lexer, LALR driver, semantic actions, output) on statements assembled from catalogues by symbolic indices, one process per structural slice; reachability twins; public-API replay"
CLAIMED.update({
 "C07": dict(
   technique=PIPE + "; symbolic literal / numeral text at action level with uninterpreted int(); z3 regex inclusion for the literal token rules",
   text="Bounded symbolic checking: 22 catalogued literals (keywords, ';', '--', '#', '=' with blanks, '%', '.', empty) x 6 literal positions (DEFAULT, column and table COMMENT, ENUM value, CHECK IN list, LOCATION) and 9 numerals (leading zeros, 2**63) through the whole pipeline come back verbatim / as the integer; the real p_default + p_defcolumn on any quoted text up to 3 [5] characters and any digit string up to 5 [8] digits (int uninterpreted); z3 decides that every quoted printable literal is one STRING token and every numeral one ID token.",
   note="Known finding (excluded class, witness replayed every run): literals containing ( ) ', ' '=' or /* */ are altered by the pre-processor. Outside: non-ASCII text, other literal positions.",
   design="3/C07"),
 "C09": dict(
   technique=PIPE + "; lexer case lemma in the type position",
   text="Bounded symbolic checking: 24 catalogued types (sizes (n) (p,s) (max) (n CHAR) (*,s), [] suffixes, two-word types, <...> types nested to depth 2 with and without blanks after inner commas) x 5 following option sets x 3 column positions through the whole pipeline: one type string (verbatim; <...> types blank-insensitively) with balanced brackets, the declared size, options kept, neighbours exactly as next to a plain type.",
   note="Known finding (excluded class): a first type word containing both '<' and '>' (ARRAY<STRING>) loses the table. Outside: types outside the catalogue, depth > 2.",
   design="3/C09"),
 "C11": dict(
   technique=PIPE + "; lexer keyword lemma after the column list",
   text="Bounded symbolic checking: a table followed by two compatible clauses of one dialect (33 catalogued clauses of 10 dialects, first clause per process, second symbolic, both orders) through the whole pipeline in the default mode: both keys with the catalogued values, everything else equal to the clause-free table; each clause alone in its owning mode: documented keys at top level, common fields unchanged; the after-columns keyword table in any case style.",
   note="Trusted: catalog/clauses.json frozen from the pinned commit (reviewed against README/tests). Known finding: ORGANIZATION INDEX after TABLESPACE/STORAGE. Outside: cross-dialect combinations, same key twice.",
   design="3/C11"),
 "C18": dict(
   technique=PIPE + "; lexer lemmas after CREATE and after a dot",
   text="Bounded symbolic checking: 19 catalogued CREATE TYPE / DOMAIN / SCHEMA / DATABASE / TABLESPACE statements, two per script (first per process, second symbolic) in 4 contexts (alone, after a table, between two tables, before a table; the tables use such types as column types) through the whole pipeline: exactly the catalogued entity per statement, in order, tables unchanged.",
   note="Trusted: catalog/entities.json frozen from the pinned commit (reviewed). Outside: CREATE DOMAIN with an unparenthesised base type, CREATE DATABASE IF NOT EXISTS (yield nothing at the pinned commit), property lists.",
   design="3/C18"),
})

NA_REASON = {
 "C15": "concurrency and PLY process-global aliasing: thread schedules and object-identity histories are not data the available solver engines (CrossHair single-threaded per-path re-execution, z3 over tables) can quantify over; see DESIGN.md section 4",
}

LRBMC = "; z3 bit-blasted bounded model checking of the regenerated LALR automaton (step lemmas: no error, stack returns, one fold per item)"
CLAIMED["C01"]["technique"] += LRBMC
CLAIMED["C17"]["technique"] += LRBMC
CLAIMED["C11"]["technique"] += LRBMC + " in the thorough tier"
CLAIMED["C01"]["text"] += " LR step lemmas (z3 BMC of the automaton): from the stack after a column's name and type, every core option followed by any option start returns to the same stack with one defcolumn fold, and the last option followed by ',' or ')' folds the column into the table once - so the number and order of options and columns is unbounded at the grammar level."
CLAIMED["C17"]["text"] += " LR step lemma: every option form followed by any option start or end of input returns to the stack [0, expr] with exactly one fold - any subset, order and number of options."
CLAIMED["C11"]["text"] += " Thorough: one LR step lemma per catalogued clause (33) - followed by the first token of any other clause of its dialect or end of input the automaton returns to [0, expr] without error."
CLAIMED["C03"]["text"] += " Further lemmas: lexing never writes into the module-level keyword tables (relational lexer obligations in four contexts; violations replayed with polluting / victim statement pairs in fresh interpreters); skeleton-building actions hand out fresh lists and dicts; scripts of two and three catalogued one-line statements yield the concatenation of what each yields alone (parser stubbed by the identity)."
CLAIMED["C05"]["text"] += " Line layout: up to 2 [3] line breaks at symbolic token gaps, indentation and a blank line give the one-line statement (4 statement kinds); 16 catalogued statements with every marked keyword lower-cased / Capitalized through the whole pipeline equal their upper-case spelling; parse_from_file reads in text mode with universal newlines."
CLAIMED["C13"]["text"] += " End to end: three different catalogued statements (7 entity kinds, four SET spellings, DROP TABLE, commented table, skipped line) through the whole pipeline: every flat entity sits in exactly one bucket, order kept."
CLAIMED["C14"]["text"] += " Options without a dataclass field are reported in written order (never a set order); skeleton actions share no mutable sub-object between calls."
CLAIMED["C16"]["text"] += " The silent setting passed through parse_from_file's settings dict reaches every call and the dict is not modified; ALTER keywords in any case style are typed as keywords (supported statements stay supported)."
CLAIMED["C19"]["text"] += " cli.main walks a directory and parses each DDL-extension entry exactly once under its own path; dump_data_to_file writes exactly the JSON of what it is given (list, grouped dict or table dict)."

# ---- round 4 additions
NATIVE = "; file-system effects decided by running the real entry points natively on a fresh temporary tree for every case the solver enumerates (names, modes, flags, invocation count as symbolic choices)"
CLAIMED["C19"]["technique"] = CLAIMED["C19"]["technique"].replace("recording fakes for open / DDLParser / dump_data_to_file / parse_from_file", "recording fakes for open / DDLParser / dump_data_to_file / parse_from_file in the plumbing lemmas") + NATIVE
CLAIMED["C14"]["technique"] += NATIVE
CLAIMED["C02"]["technique"] += LRBMC
CLAIMED["C09"]["technique"] += LRBMC
CLAIMED["C19"]["text"] += " The real sdp command (cli.main, argparse, parse_from_file, the dump code) on a fresh temporary tree: input name (lower / mixed case), -o mode, an optional second invocation on the same target with another mode, -t given or defaulted, file / directory mode, --no-dump: exactly <target>/<base name>_schema.json per DDL file with the JSON of the API result for the last mode, and nothing at all with --no-dump; dump_data_to_file on a real directory (present or not) for four kinds of data."
CLAIMED["C19"]["note"] = "Outside (not encodable): codecs, the console-script shim of the sdp process. File-system lemmas execute natively (CrossHair tracing suspended, side-effect wall opened for the temporary tree); the solver's role there is the enumeration of the case space - stated in the evidence."
CLAIMED["C14"]["text"] += " The second parse_data() call starts from whatever the first left in Parser.data (no re-initialisation) and statements are compared as the lexer sees them, also on a script whose literals contain text the spacing rules touch; run() / parse_from_file() without dump and sdp --no-dump create nothing in the working directory, next to the input or in the dump directory (15 modes x group_by_type x json_dump x entry point; real temporary tree)."
CLAIMED["C14"]["note"] = "Trusted: identity stub for yacc.parse in the re-run lemmas. Outside: rewriting of parsetab.py inside the package (C20), other processes beyond table generation under other hash seeds."
CLAIMED["C02"]["text"] += " LR step lemmas: key / unique / foreign-key / referenced column lists of any length; the foreign-key item as a chain (head, REFERENCES [schema.]table (, close, ON DELETE / UPDATE in any order) back to [0, expr] with exactly one fold. Schema-qualified tables: referenced schema exactly as written. Seven catalogued CHECK expressions x five declaration forms (inline, table-level named / unnamed, ALTER ADD [CONSTRAINT] CHECK) through the whole pipeline: reported exactly once, in the form's place."
CLAIMED["C09"]["text"] += " LR step lemmas: inside angle brackets any of < name , > followed by any of them returns to the same stack with one fold (any nesting depth, any number of members); the last > followed by an option start leaves the stack of a plain-typed column, followed by ',' or ')' it folds the column into the table once."
CLAIMED["C06"]["text"] += " Relational pipeline lemma: 18 catalogued identifiers (letters, digits, _ $ # @ -, delimited forms containing '#') at 12 name positions give the result of the neutral name, renamed; normalize_names end to end also on delimited names that spell SQL words inside ALTER statements."
CLAIMED["C10"]["text"] += " End to end: 12 catalogued scripts x 15 modes through the whole pipeline: same entities, same order, common fields equal to the default mode's, no exception - the text handed to the parser does not depend on the mode."
CLAIMED["C16"]["text"] += " Near-miss mode names (other letter case, surrounding blank, missing / extra letter, None) raise the documented exception; statements following a skipped statement that has no terminating ';' reach the parser exactly as when alone (replayed with silent=False: the script raises iff one of its lines alone does)."
CLAIMED["C17"]["text"] += " Two CREATE SEQUENCE statements with names differing only in case / quoting / schema (or equal), optionally around a table of the same name: the script yields exactly what each statement yields alone."
CLAIMED["C13"]["text"] += " Each bucket holds exactly the entities of the statements of its kind (kind taken from the statement, incl. databases / schemas / tables carrying a TABLESPACE clause)."
CLAIMED["C05"]["text"] += " The cased spelling is dispatched through the real master regex (a keyword rule that is not case-insensitive is seen); four CREATE TABLE statements in 4 layouts each, with ';' or terminated only by the next CREATE line, blank lines, LF / CRLF."
CLAIMED["C04"]["text"] += " normalize_names=True with delimited names that spell SQL words in ALTER DROP / ADD UNIQUE / RENAME / DEFAULT FOR / ADD / MODIFY: same effect, names without delimiters."
CLAIMED["C01"]["text"] += " Sizes with the interpreted int() for every 1-2 digit numeral incl. 0; 37 catalogued string literals as a DEFAULT through the whole pipeline."
CLAIMED["C20"]["text"] += " A grammar that PLY refuses to regenerate (its own validation fails) while a shipped table still loads is reported through the cache states in which the library then fails."


def main():
    checks = []
    for pid in ALL:
        if pid not in CLAIMED: continue
        c = CLAIMED[pid]
        checks.append({
            "property_id": pid,
            "quick_cmd": f"./check {pid} --tier quick",
            "thorough_cmd": f"./check {pid} --tier thorough",
            "evidence_file": f"/verif/evidence/{pid}.json",
            "replay_cmd_template": f"./check {pid} --replay {{path}}",
            "engine": "vf",
            "level_claimed": {"category": "model_checking", "text": c["text"], "design_ref": c["design"]},
            "level_note": c["note"],
            "technique": c["technique"],
        })
    na = [{"property_id": p, "reason": NA_REASON.get(p, "check not built yet in this round (planned in DESIGN.md section 3); nothing is claimed")}
          for p in ALL if p not in CLAIMED]
    m = {
        "version": 1,
        "setup_cmd": "./setup.sh",
        "hooks": {"guard": "SIMPLE_DDL_PARSER_VERIF", "enable": "no source hooks are needed: harnesses call the real functions of a scratch copy of /repo's working tree and wrap bound methods from outside",
                  "baseline_off_cmd": "cd /repo && /venv/bin/python -m pytest -ra -q -p no:cacheprovider --timeout=900 --continue-on-collection-errors",
                  "source_commits": [], "add_only": True},
        "engines": [
            {"name": "vf", "path": "/verif/vf", "serves_properties": sorted(CLAIMED), "kind_free_text": "CrossHair (z3) symbolic execution of real lexer rules / semantic actions / output code, one process per structural choice; z3 bounded model checking of the regenerated LALR automaton; z3 regex inclusion for token rules; counterexamples replayed through the public API"},
        ],
        "checks": checks,
        "not_applicable": na,
        "notes": "All checks copy /repo's working tree to a scratch directory, regenerate every encoding from it, and never import from /repo directly.",
    }
    json.dump(m, open(os.path.join(V, "MANIFEST.json"), "w"), indent=1)
    print("MANIFEST.json:", len(checks), "checks,", len(na), "not_applicable")

if __name__ == "__main__":
    main()
