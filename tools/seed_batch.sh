#!/bin/sh
# tools/seed_batch.sh <pattern>: run tools/seed_run.sh for every seed matching the pattern, log one line each
cd /verif
for d in seeded/$1; do
  sid=$(basename $d)
  grep -q '"status": "obsolete' $d/meta.json 2>/dev/null && continue
  tools/seed_run.sh $sid 2>&1 | head -4 | cut -c1-260
done
