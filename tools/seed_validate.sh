#!/bin/sh
# tools/seed_validate.sh <dir with patch.diff demo.py> : confirm in a scratch worktree that the seeded
# change applies, keeps the suite green, and that the demo fails with it and passes without it.
D=$1
WT=/tmp/wt-eval-$$
git -C /repo worktree add -q --detach $WT HEAD || exit 9
cd $WT
PYTHONPATH=$WT /venv/bin/python $D/demo.py >/dev/null 2>&1; base=$?
git apply $D/patch.diff || { echo "APPLY-FAILED"; cd /; git -C /repo worktree remove --force $WT; exit 8; }
PYTHONPATH=$WT /venv/bin/python -m pytest -q -p no:cacheprovider -x 2>&1 | tail -1 > /tmp/seedval.$$.txt
PYTHONPATH=$WT /venv/bin/python $D/demo.py >/dev/null 2>&1; mut=$?
echo "demo_without=$base demo_with=$mut tests: $(cat /tmp/seedval.$$.txt)"
rm -f /tmp/seedval.$$.txt
cd /; git -C /repo worktree remove --force $WT
