#!/bin/sh
# tools/benign_run.sh <benign-id> <property>...: run quick checks against a scratch worktree with a behaviour-preserving
# change applied; every check is expected to exit 0 (no VIOLATION, no harness error).
BID=$1; shift
cd /verif
WT=/tmp/wt-benign-$BID-$$
git -C /repo worktree add -q --detach $WT HEAD || exit 9
git -C $WT apply /verif/seeded-benign/$BID/patch.diff || { git -C /repo worktree remove --force $WT; exit 8; }
for P in "$@"; do
  LOG=/tmp/benign-$BID-$P.log
  VERIF_EVIDENCE_DIR=/tmp/seed-evidence VERIF_REPO=$WT ./check $P > $LOG 2>&1; rc=$?
  echo "$BID [$P]: exit=$rc $(grep -c '^VIOLATION' $LOG) violation lines; $(tail -1 $LOG | cut -c1-200)"
  grep -m3 -A1 '^VIOLATION' $LOG | cut -c1-300
done
git -C /repo worktree remove --force $WT
