#!/bin/sh
# tools/seed_run.sh <seed-id> [check args...]: run the property's quick check against a scratch worktree of /repo
# with the seeded change applied (VERIF_REPO points the checks at it; /repo itself is not touched, so several
# seeds can run side by side).  Evidence files are restored afterwards (evidence must come from the unchanged tree).
SID=$1; shift
PID=$(echo $SID | cut -d- -f1)
case $PID in B*) PID=$1; shift;; esac
cd /verif
WT=/tmp/wt-seed-$SID-$$
git -C /repo worktree add -q --detach $WT HEAD || exit 9
git -C $WT apply /verif/seeded/$SID/patch.diff || { git -C /repo worktree remove --force $WT; exit 8; }
if [ $# -eq 0 ]; then set -- $PID; fi
LOG=/tmp/seedrun-$SID-$1.log
VERIF_EVIDENCE_DIR=/tmp/seed-evidence VERIF_REPO=$WT ./check "$@" > $LOG 2>&1; rc=$?
git -C /repo worktree remove --force $WT
echo "$SID [$*]: exit=$rc $(grep -c '^VIOLATION' $LOG) violation lines; $(tail -1 $LOG)"
grep -m2 -A1 '^VIOLATION' $LOG | cut -c1-400
