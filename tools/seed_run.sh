#!/bin/sh
# tools/seed_run.sh <seed-id> [check args...]: apply seeded change to /repo, run the property's quick check, undo.
# Evidence files are restored afterwards (evidence must come from the unchanged tree).
SID=$1; shift
PID=$(echo $SID | cut -d- -f1)
cd /verif
git -C /repo status --short | grep -q . && { echo "/repo not clean"; exit 9; }
git -C /repo apply /verif/seeded/$SID/patch.diff || exit 8
if [ $# -eq 0 ]; then set -- $PID; fi
./check "$@" > /tmp/seedrun-$SID.log 2>&1; rc=$?
git -C /repo checkout -- . ; git -C /repo clean -fdq
git -C /verif checkout -- evidence 2>/dev/null
echo "$SID: exit=$rc $(grep -c '^VIOLATION' /tmp/seedrun-$SID.log) violation lines; $(tail -1 /tmp/seedrun-$SID.log)"
grep -m2 -A1 '^VIOLATION' /tmp/seedrun-$SID.log | cut -c1-400
