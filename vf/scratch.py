"""Scratch copies of /repo's working tree.

Checks never import simple_ddl_parser from /repo: constructing a DDLParser may
rewrite parsetab.py next to the package.  Every run copies the package into a
fresh directory outside /repo and /verif, warms it up once (so that parallel
harness processes only *read* the regenerated table file) and removes it at
the end.
"""
import atexit
import os
import shutil
import subprocess
import sys
import tempfile

REPO = os.environ.get("VERIF_REPO", "/repo")
VERIF = os.path.dirname(os.path.dirname(os.path.abspath(__file__)))
PY = os.path.join(VERIF, ".venv", "bin", "python")

_made = []


def make_scratch(warm: bool = True, tag: str = "sdpv") -> str:
    root = os.environ.get("VERIF_SCRATCH_ROOT") or tempfile.gettempdir()
    d = tempfile.mkdtemp(prefix=f"{tag}-", dir=root)
    shutil.copytree(
        os.path.join(REPO, "simple_ddl_parser"),
        os.path.join(d, "simple_ddl_parser"),
        ignore=shutil.ignore_patterns("__pycache__", "*.pyc"),
    )
    _made.append(d)
    if warm:
        r = subprocess.run(
            [PY, "-c", "from simple_ddl_parser import DDLParser; DDLParser('')"],
            env=child_env(d),
            capture_output=True,
            text=True,
            cwd=d,
        )
        if r.returncode != 0:
            raise RuntimeError("scratch copy does not import:\n" + r.stderr[-2000:])
    return d


def child_env(scratch: str, extra: dict = None) -> dict:
    env = dict(os.environ)
    env["PYTHONPATH"] = os.pathsep.join([scratch, VERIF])
    env["PYTHONDONTWRITEBYTECODE"] = "1"
    env.setdefault("PYTHONHASHSEED", "0")
    env["VF_SCRATCH"] = scratch
    if extra:
        env.update({k: str(v) for k, v in extra.items()})
    return env


def drop(d: str) -> None:
    shutil.rmtree(d, ignore_errors=True)
    if d in _made:
        _made.remove(d)


@atexit.register
def _cleanup():
    for d in list(_made):
        shutil.rmtree(d, ignore_errors=True)


def repo_file(rel: str) -> str:
    return os.path.join(REPO, rel)


if __name__ == "__main__":
    print(make_scratch())
    _made.clear()
