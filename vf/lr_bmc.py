"""LR engine, part 2: bounded model checking of the LALR automaton PLY generates for the
working tree (tables from vf.lr.gen_tables), as a bit-vector transition system decided by z3
(simplify -> bit-blast -> sat).

Step lemma  LEMMA(sigma, F, Phi, sigma', lhs):
  for every token string w in the fragment language F with |w| <= K and every follow token f in
  Phi, the PLY driver started with LR stack sigma on input w.f
    (i)   never takes an error action,
    (ii)  within T steps reaches the configuration "all of w consumed, stack == sigma', next
          action is a shift of f (or accept on $end)",
    (iii) performs exactly `count` reductions whose left-hand side is `lhs` on the way.
  Queries:  Q1 = exists (w, f): error, or not finished within T / D   (unsat wanted; a model
            without the error flag is a bound problem and reported inconclusive)
            Q2 = exists (w, f): finished and the reduction count differs (unsat wanted)
            W  = exists w with |w| == K finished                      (sat wanted: reachability)
  When sigma' == sigma the lemma composes with itself: items repeat any number of times.
"""
import time

import z3

END = "$end"


class Automaton:
    def __init__(self, tables):
        self.terms = sorted({t for _, t, _ in tables["action"]} | {END})
        self.nts = sorted({n for _, n, _ in tables["goto"]})
        self.tid = {t: i for i, t in enumerate(self.terms)}
        self.nid = {n: i for i, n in enumerate(self.nts)}
        self.action = {(s, t): a for s, t, a in tables["action"]}
        self.goto = {(s, n): g for s, n, g in tables["goto"]}
        self.prods = [(p[1], p[2]) for p in tables["productions"]]  # (lhs, len)
        by_state = {}
        for (s, t), a in self.action.items():
            by_state.setdefault(s, []).append(a)
        # ply.yacc.LRParser.set_defaulted_states
        self.defaulted = {s: acts[0] for s, acts in by_state.items() if len(acts) == 1 and acts[0] < 0}
        self.start = tables["start"]

    # ---- reference driver (ply.yacc.LRParser.parseopt_notrack without error recovery) --------
    def run(self, tokens, stack=None, stop_before=None):
        """returns (status, stack, reductions, consumed); stops when about to *shift* token index
        stop_before (the stack at an item boundary)"""
        st = list(stack or [0])
        toks = list(tokens) + [END]
        pos, reds = 0, []
        for _ in range(10000):
            s = st[-1]
            if s in self.defaulted:
                a = self.defaulted[s]
            else:
                a = self.action.get((s, toks[pos]))
            if a is None:
                return "error", st, reds, pos
            if a > 0:
                if stop_before is not None and pos == stop_before:
                    return "boundary", st, reds, pos
                st.append(a)
                pos += 1
            elif a < 0:
                lhs, ln = self.prods[-a]
                if ln:
                    del st[-ln:]
                st.append(self.goto[(st[-1], lhs)])
                reds.append(-a)
            else:
                if stop_before is not None and pos == stop_before:
                    return "boundary", st, reds, pos
                return "accept", st, reds, pos
        return "loop", st, reds, pos

    def boundary_stack(self, prefix, lookahead):
        status, st, _, _ = self.run(list(prefix) + [lookahead], stop_before=len(prefix))
        if status != "boundary":
            raise ValueError(f"prefix {prefix} + {lookahead}: {status}")
        return st

    def reachable(self, sigma, alphabet):
        seen, todo = set(sigma), list(sigma)
        syms = set(alphabet)
        while todo:
            s = todo.pop()
            for (s2, t), a in self.action.items():
                if s2 == s and a > 0 and t in syms and a not in seen:
                    seen.add(a)
                    todo.append(a)
            for (s2, n), g in self.goto.items():
                if s2 == s and g not in seen:
                    seen.add(g)
                    todo.append(g)
        return seen


# ---------------------------------------------------------------- fragments (regular) --------
class Frag:
    """tiny regular-expression algebra over terminal names -> DFA"""

    def __init__(self, kind, *args):
        self.kind, self.args = kind, args


def T(*names):
    return Frag("set", frozenset(names))


def Seq(*xs):
    return Frag("seq", *xs)


def Alt(*xs):
    return Frag("alt", *xs)


def Opt(x):
    return Frag("alt", x, Frag("eps"))


def Star(x):
    return Frag("star", x)


def _nfa(f, counter):
    """Thompson construction: returns (start, end, transitions) ; transitions: (p, symset|None, q)"""
    s, e = next(counter), next(counter)
    if f.kind == "eps":
        return s, e, [(s, None, e)]
    if f.kind == "set":
        return s, e, [(s, f.args[0], e)]
    if f.kind == "seq":
        tr, cur = [], s
        for x in f.args:
            xs, xe, xt = _nfa(x, counter)
            tr += xt + [(cur, None, xs)]
            cur = xe
        return s, e, tr + [(cur, None, e)]
    if f.kind == "alt":
        tr = []
        for x in f.args:
            xs, xe, xt = _nfa(x, counter)
            tr += xt + [(s, None, xs), (xe, None, e)]
        return s, e, tr
    if f.kind == "star":
        xs, xe, xt = _nfa(f.args[0], counter)
        return s, e, xt + [(s, None, xs), (xe, None, xs), (s, None, e), (xe, None, e)]
    raise ValueError(f.kind)


def dfa(frag):
    import itertools
    c = itertools.count()
    s, e, tr = _nfa(frag, c)

    def closure(states):
        out, todo = set(states), list(states)
        while todo:
            p = todo.pop()
            for a, sym, b in tr:
                if a == p and sym is None and b not in out:
                    out.add(b)
                    todo.append(b)
        return frozenset(out)

    alphabet = set()
    for _, sym, _ in tr:
        if sym:
            alphabet |= sym
    start = closure({s})
    ids, todo, delta = {start: 0}, [start], {}
    while todo:
        S = todo.pop()
        for a in alphabet:
            nxt = closure({b for p, sym, b in tr if p in S and sym and a in sym})
            if not nxt:
                continue
            if nxt not in ids:
                ids[nxt] = len(ids)
                todo.append(nxt)
            delta[(ids[S], a)] = ids[nxt]
    accepting = {i for S, i in ids.items() if e in S}
    return {"n": len(ids), "delta": delta, "accepting": accepting, "alphabet": sorted(alphabet)}


def strings(d, maxlen):
    """all accepted strings up to maxlen (for corpus validation of the encoding only)"""
    out, todo = [], [(0, [])]
    while todo:
        q, w = todo.pop()
        if q in d["accepting"]:
            out.append(w)
        if len(w) < maxlen:
            for (p, a), r in d["delta"].items():
                if p == q:
                    todo.append((r, w + [a]))
    return out


# ---------------------------------------------------------------- z3 encoding ----------------
SB, TB, AB = 11, 8, 13  # bits: state, terminal / non-terminal, action code


def _tree(key, items, width, default=0):
    if not items:
        return z3.BitVecVal(default, width)
    if len(items) == 1:
        return z3.If(key == items[0][0], z3.BitVecVal(items[0][1], width), z3.BitVecVal(default, width))
    mid = len(items) // 2
    return z3.If(z3.ULT(key, items[mid][0]), _tree(key, items[:mid], width, default), _tree(key, items[mid:], width, default))


ERR, ACCEPT = 0, (1 << AB) - 1
RED = 1 << (AB - 1)  # reduce p -> RED + p ; shift s -> 1 + s


class Lemma:
    def __init__(self, aut, name, sigma, frag, follows, target, lhs, count=1, K=6, T=None, D=None):
        self.aut, self.name, self.sigma, self.frag = aut, name, list(sigma), frag
        self.follows, self.target, self.lhs, self.count = list(follows), list(target), lhs, count
        self.K = K
        self.T = T or (5 * K + 8)
        self.D = D or (max(len(sigma), len(target)) + K + 4)
        self.dfa = dfa(frag)
        self.stats = {}

    def _code(self, a):
        if a is None:
            return ERR
        if a > 0:
            return 1 + a
        if a < 0:
            return RED + (-a)
        return ACCEPT

    def build(self):
        aut = self.aut
        alphabet = set(self.dfa["alphabet"]) | set(self.follows)
        states = aut.reachable(set(self.sigma) | set(self.target), alphabet)
        self.stats["states"] = len(states)
        acts = sorted(((s << TB) | aut.tid[t], self._code(a)) for (s, t), a in aut.action.items() if s in states and t in alphabet)
        gotos = sorted(((s << TB) | aut.nid[n], g) for (s, n), g in aut.goto.items() if s in states)
        self.stats["action_entries"], self.stats["goto_entries"] = len(acts), len(gotos)
        dflt = sorted((s, self._code(a)) for s, a in aut.defaulted.items() if s in states)
        plen = sorted((i, ln) for i, (lhs, ln) in enumerate(aut.prods))
        plhs = sorted((i, aut.nid[lhs]) for i, (lhs, ln) in enumerate(aut.prods) if lhs in aut.nid)
        K, Tn, D = self.K, self.T, self.D
        tok = [z3.BitVec(f"tok{i}", TB) for i in range(K)]
        n = z3.BitVec("n", 8)
        follow = z3.BitVec("follow", TB)
        cons = [z3.ULE(1, n), z3.ULE(n, K)]
        cons.append(z3.Or(*[follow == aut.tid[f] for f in self.follows]))
        # fragment DFA over the first n tokens
        qb = max(1, (self.dfa["n"]).bit_length())
        q = [z3.BitVec(f"q{i}", qb) for i in range(K + 1)]
        cons.append(q[0] == 0)
        dead = (1 << qb) - 1
        for i in range(K):
            nxt = z3.BitVecVal(dead, qb)
            for (p, a), r in self.dfa["delta"].items():
                nxt = z3.If(z3.And(q[i] == p, tok[i] == aut.tid[a]), z3.BitVecVal(r, qb), nxt)
            cons.append(z3.If(z3.ULT(i, n), q[i + 1] == nxt, q[i + 1] == q[i]))
            cons.append(z3.Implies(z3.ULT(i, n), q[i + 1] != dead))
        cons.append(z3.Or(*[q[K] == a for a in self.dfa["accepting"]]))

        def lookahead(pos):
            la = z3.BitVecVal(aut.tid[END], TB)
            la = z3.If(pos == n, follow, la)
            for i in range(K):
                la = z3.If(z3.And(pos == i, z3.ULT(i, n)), tok[i], la)
            return la

        def sel(stack, idx):
            v = z3.BitVecVal(0, SB)
            for j in range(D):
                v = z3.If(idx == j, stack[j], v)
            return v

        stack = [z3.BitVecVal(self.sigma[j] if j < len(self.sigma) else 0, SB) for j in range(D)]
        sp = z3.BitVecVal(len(self.sigma), 8)
        pos = z3.BitVecVal(0, 8)
        err = z3.BoolVal(False)
        done = z3.BoolVal(False)
        overflow = z3.BoolVal(False)
        cnt = z3.BitVecVal(0, 8)
        cnt_at_done = z3.BitVecVal(0, 8)
        lhs_id = aut.nid[self.lhs]
        for k in range(Tn):
            top = sel(stack, sp - 1)
            la = lookahead(pos)
            a_tab = _tree(z3.Concat(top, la), acts, AB)
            a_def = _tree(top, dflt, AB)
            a = z3.If(a_def != ERR, a_def, a_tab)
            is_err = a == ERR
            is_acc = a == ACCEPT
            is_red = z3.And(z3.UGE(a, RED), a != ACCEPT)
            is_shift = z3.And(a != ERR, z3.ULT(a, RED))
            at_target = z3.And(pos == n, sp == len(self.target),
                               *[stack[j] == self.target[j] for j in range(len(self.target))])
            now_done = z3.And(z3.Not(done), z3.Not(err), at_target, z3.Or(is_shift, is_acc))
            cnt_at_done = z3.If(now_done, cnt, cnt_at_done)
            done = z3.Or(done, now_done)
            active = z3.And(z3.Not(done), z3.Not(err))
            err = z3.Or(err, z3.And(active, z3.Or(is_err, z3.And(is_acc, z3.Not(at_target)))))
            p = z3.Extract(AB - 2, 0, a)  # production number of a reduce
            ln = _tree(p, plen, 8)
            lh = _tree(p, plhs, TB)
            base = sel(stack, sp - ln - 1)
            g = _tree(z3.Concat(base, lh), gotos, SB)
            do_shift = z3.And(active, is_shift)
            do_red = z3.And(active, is_red)
            overflow = z3.Or(overflow, z3.And(do_shift, z3.UGE(sp, D)), z3.And(do_red, z3.UGE(sp - ln, D)))
            new_stack = []
            for j in range(D):
                v = stack[j]
                v = z3.If(z3.And(do_shift, sp == j), z3.Extract(SB - 1, 0, a - 1), v)
                v = z3.If(z3.And(do_red, sp - ln == j), g, v)
                new_stack.append(v)
            stack = new_stack
            cnt = z3.If(z3.And(do_red, lh == lhs_id), cnt + 1, cnt)
            sp = z3.If(do_shift, sp + 1, z3.If(do_red, sp - ln + 1, sp))
            pos = z3.If(do_shift, pos + 1, pos)
        self.vars = {"tok": tok, "n": n, "follow": follow}
        self.cons, self.err, self.done, self.overflow, self.cnt_at_done = cons, err, done, overflow, cnt_at_done

    def _solve(self, *extra, timeout=600):
        s = z3.Then("simplify", "bit-blast", "sat").solver()
        s.set("timeout", timeout * 1000)
        for c in self.cons:
            s.add(c)
        for c in extra:
            s.add(c)
        t0 = time.time()
        r = str(s.check())
        model = None
        if r == "sat":
            m = s.model()
            n = m.eval(self.vars["n"], model_completion=True).as_long()
            toks = [self.aut.terms[m.eval(t, model_completion=True).as_long()] for t in self.vars["tok"][:n]]
            model = {"tokens": toks, "follow": self.aut.terms[m.eval(self.vars["follow"], model_completion=True).as_long()],
                     "error_flag": bool(m.eval(self.err, model_completion=True)), "done": bool(m.eval(self.done, model_completion=True)),
                     "overflow": bool(m.eval(self.overflow, model_completion=True))}
        return r, model, round(time.time() - t0, 2)

    def check(self, timeout=600):
        t0 = time.time()
        self.build()
        build_s = round(time.time() - t0, 2)
        q1 = self._solve(z3.Or(self.err, z3.Not(self.done)), timeout=timeout)
        q2 = self._solve(self.done, self.cnt_at_done != self.count, timeout=timeout)
        w = self._solve(self.done, self.vars["n"] == min(self.K, self._maxlen()), timeout=timeout)
        return {"build_s": build_s, "Q1_no_error_and_returns": q1, "Q2_reduction_count": q2, "W_reachability": w, "stats": self.stats,
                "K": self.K, "T": self.T, "D": self.D}

    def _maxlen(self):
        return max((len(w) for w in strings(self.dfa, self.K)), default=1)

    # concrete replay of a model on the reference driver
    def replay(self, model):
        toks = model["tokens"] + [model["follow"]]
        status, st, reds, pos = self.aut.run(toks, stack=self.sigma, stop_before=len(model["tokens"]))
        n_lhs = sum(1 for r in reds if self.aut.prods[r][0] == self.lhs)
        return {"status": status, "stack": st, "reductions_of_lhs": n_lhs, "ok": status == "boundary" and st == self.target and n_lhs == self.count}
