"""Replaying the witnesses of known_findings.json through the public API (subprocess on the
scratch copy).  A finding 'still stands' when the witness still shows the defect."""
import json
import subprocess

from vf.scratch import PY, VERIF, child_env

_SCRIPT = r'''
import json, sys
from simple_ddl_parser import DDLParser
w = json.loads(sys.stdin.read())
kw = w.get("init", {})
run = w.get("run", {})
def go(ddl):
    try:
        return DDLParser(ddl, **kw).run(**run)
    except Exception as e:
        return "EXC " + type(e).__name__ + ": " + str(e)
got = go(w["ddl"])
stands = None
if "expected_like" in w:
    stands = got != go(w["expected_like"])
elif "expected" in w:
    stands = got != w["expected"]
elif "raises" in w:
    stands = isinstance(got, str) and got.startswith("EXC " + w["raises"])
elif "expected_contains" in w:
    stands = w["expected_contains"] not in json.dumps(got)
print(json.dumps({"stands": bool(stands), "got": got}, default=repr))
'''


def replay_witness(scratch: str, entry: dict) -> bool:
    w = entry.get("witness") or {}
    if "ddl" not in w:
        return False
    r = subprocess.run([PY, "-c", _SCRIPT], input=json.dumps(w), env=child_env(scratch), capture_output=True, text=True,
                       timeout=120, cwd=VERIF)
    try:
        return bool(json.loads(r.stdout.strip().splitlines()[-1])["stands"])
    except Exception:
        return False
