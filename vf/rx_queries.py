"""Regex obligations (z3 seq/re theory) over the token rules PLY built for the scratch copy."""
import json
import subprocess
import time

import z3

from vf import rx
from vf.scratch import PY, VERIF, child_env

S = z3.StringSort()
IDENT = z3.Concat(z3.Union(z3.Range("a", "z"), z3.Range("A", "Z"), z3.Re("_")), z3.Star(rx.WORD))
FN = ["simple_ddl_parser/ddl_parser.py: token rule docstrings t_EQ, t_DOT, t_STRING_BASE, t_DQ_STRING, t_COLLATE, t_AUTOINCREMENT, t_ID, t_ignore "
      "(as compiled by ply.lex for the working tree)"]


def _api(scratch, ddl, silent=True):
    code = ("import json,sys\nfrom simple_ddl_parser import DDLParser\n"
            "d=json.loads(sys.stdin.read())\n"
            "try:\n    r=DDLParser(d['ddl'], silent=d['silent']).run()\nexcept Exception as e:\n    r='EXC '+type(e).__name__+': '+str(e)\n"
            "print(json.dumps(r, default=repr))")
    p = subprocess.run([PY, "-c", code], input=json.dumps({"ddl": ddl, "silent": silent}), env=child_env(scratch),
                       capture_output=True, text=True, cwd=VERIF, timeout=120)
    try:
        return json.loads(p.stdout.strip().splitlines()[-1])
    except Exception:
        return "EXC harness: " + (p.stdout + p.stderr)[-300:]


def _rules(scratch):
    info = rx.lexer_rules(scratch)
    out = []
    for r in info["rules"]:
        try:
            z, b = rx.rule_regex(r["pattern"])
            out.append((r["name"], r["pattern"], z, b, None))
        except rx.Unsupported as e:
            out.append((r["name"], r["pattern"], None, False, str(e)))
    return info, out


def rec(oid, result, q, bounds, **extra):
    d = {"id": oid, "engine": "z3-regex", "functions": FN, "bounds": bounds, "result": result,
         "queries": q.log[-extra.pop("nq", 1):], "solver_wall_s": round(sum(x["solver_s"] for x in q.log[-extra.get("_n", 1):]), 3)}
    extra.pop("_n", None)
    d.update(extra)
    return d


def identifier_queries(scratch, pid, maxlen=16):
    """every identifier word [A-Za-z_][A-Za-z0-9_]* (not itself a keyword-rule word) is taken
    whole by t_ID: no earlier rule matches a prefix of it, and t_ID's class covers it."""
    info, rules = _rules(scratch)
    q = rx.Q()
    w = z3.String("w")
    out = []
    names = [r[0] for r in rules]
    if "t_ID" not in names:
        return [{"id": f"{pid}.rx/ident", "engine": "z3-regex", "result": "error", "detail": "no t_ID rule"}]
    for name, pat, z, b, err in rules[:names.index("t_ID")]:
        oid = f"{pid}.rx/ident-not-split-by/{name}"
        if z is None:
            out.append({"id": oid, "engine": "z3-regex", "functions": FN, "result": "inconclusive", "detail": f"untranslatable: {err}"})
            continue
        n0 = len(q.log)
        ans, model = q.check(oid, z3.InRe(w, IDENT), z3.Length(w) <= maxlen, z3.InRe(w, rx.prefix_language(z, b)),
                             z3.Not(z3.InRe(w, z)), model_of=[w])
        bounds = f"identifier words [A-Za-z_][A-Za-z0-9_]* of length <= {maxlen} other than the rule's own words; rule regex {pat!r}"
        if ans == "unsat":
            out.append(rec(oid, "discharged", q, bounds))
        elif ans == "sat":
            word = model["w"]
            ddl = f"CREATE TABLE t ( {word} int , x int ) ;"
            got = _api(scratch, ddl)
            ok = isinstance(got, list) and got and got[0].get("columns") and got[0]["columns"][0].get("name") == word
            out.append(rec(oid, "inconclusive" if ok else "violation", q, bounds,
                           counterexample={"word": word, "ddl": ddl, "got": got, "expected": f"a table whose first column is named {word}",
                                           "reproduced": not ok}))
        else:
            out.append(rec(oid, "inconclusive", q, bounds, detail="z3 answered " + ans))
    # witness: the rule's own word is matched (the encoding is not vacuous)
    name, pat, z, b, err = rules[names.index("t_ID")]
    oid = f"{pid}.rx/ident-covered-by/t_ID"
    if z is None:
        out.append({"id": oid, "engine": "z3-regex", "functions": FN, "result": "inconclusive", "detail": f"untranslatable: {err}"})
    else:
        ans, model = q.check(oid, z3.InRe(w, IDENT), z3.Length(w) <= maxlen, z3.Not(z3.InRe(w, z)), model_of=[w])
        wit, wm = q.check(oid + "/witness", z3.InRe(w, IDENT), z3.Length(w) == 5, z3.InRe(w, z), model_of=[w])
        bounds = f"identifier words of length <= {maxlen} are in L(t_ID) = {pat!r}"
        if ans == "unsat" and wit == "sat":
            out.append(rec(oid, "discharged", q, bounds, witness=wm, _n=2))
        elif ans == "sat":
            word = model["w"]
            ddl = f"CREATE TABLE t ( {word} int , x int ) ;"
            got = _api(scratch, ddl)
            ok = isinstance(got, list) and got and got[0]["columns"][0].get("name") == word
            out.append(rec(oid, "inconclusive" if ok else "violation", q, bounds, counterexample={"word": word, "ddl": ddl, "got": got, "reproduced": not ok}))
        else:
            out.append(rec(oid, "inconclusive", q, bounds, detail=f"z3 answered {ans}/{wit}"))
    return out


def numeral_queries(scratch, pid):
    """-?[0-9]+ is one ID token (C17 / C07 numeric literals)"""
    info, rules = _rules(scratch)
    q = rx.Q()
    w = z3.String("w")
    # integers with optional sign, unsigned decimals (negative decimals: recorded finding negative-decimal-literal)
    NUM = z3.Union(z3.Concat(z3.Option(z3.Re("-")), z3.Plus(rx.DIGIT)), z3.Concat(z3.Plus(rx.DIGIT), z3.Re("."), z3.Plus(rx.DIGIT)))
    names = [r[0] for r in rules]
    out = []
    bad = None
    for name, pat, z, b, err in rules[:names.index("t_ID")]:
        if z is None:
            continue
        ans, model = q.check(f"{pid}.rx/numeral/{name}", z3.InRe(w, NUM), z3.Length(w) <= 20, z3.InRe(w, rx.prefix_language(z, b)), model_of=[w])
        if ans != "unsat":
            bad = (name, ans, model)
    z = rules[names.index("t_ID")][2]
    ans, model = q.check(f"{pid}.rx/numeral/t_ID", z3.InRe(w, NUM), z3.Length(w) <= 20, z3.Not(z3.InRe(w, z)), model_of=[w])
    wit, wm = q.check(f"{pid}.rx/numeral/witness", z3.InRe(w, NUM), z3.Length(w) == 19, z3.InRe(w, z), model_of=[w])
    oid = f"{pid}.rx/numeral-is-one-ID"
    bounds = "numerals -?[0-9]+ and [0-9]+\\.[0-9]+ of length <= 20: no earlier rule matches a prefix, t_ID matches the whole word"
    n = len(q.log)
    if bad is None and ans == "unsat" and wit == "sat":
        out.append(rec(oid, "discharged", q, bounds, witness=wm, _n=n))
    else:
        word = (bad[2] or {}).get("w") if bad else (model or {}).get("w")
        ddl = f"CREATE TABLE t ( a decimal ( 9 , 3 ) DEFAULT {word} , b int ) ;"
        got = _api(scratch, ddl)
        ok = isinstance(got, list) and got and str(got[0]["columns"][0].get("default")) == str(int(word) if word.lstrip("-").isdigit() else word) if word else True
        out.append(rec(oid, "inconclusive" if ok else "violation", q, bounds, counterexample={"word": word, "ddl": ddl, "got": got, "reproduced": not ok}, _n=n))
    return out


def first_char_queries(scratch, pid, known_uncovered):
    """C16.rx: which printable ASCII characters can start no token (t_error raises on them
    whatever `silent` says).  Characters not in the recorded finding are violations."""
    info, rules = _rules(scratch)
    q = rx.Q()
    rest = z3.String("rest")
    union = [rx.prefix_language(z, b) for _, _, z, b, _ in rules if z is not None]
    U = z3.Union(*union)
    uncovered = []
    t0 = time.time()
    for code in range(0x20, 0x7f):
        c = chr(code)
        if c in info["ignore"]:
            continue
        ans, _ = q.check(f"first-char {c!r}", z3.InRe(z3.Concat(z3.StringVal(c), rest), U), z3.Length(rest) <= 4)
        if ans == "unsat":
            uncovered.append(c)
        elif ans != "sat":
            uncovered.append(c + "?")
    out = []
    bounds = "each of the 95 printable ASCII characters followed by any rest of length <= 4, against the union of all token rules' prefix languages and t_ignore"
    new = [c for c in uncovered if c not in known_uncovered]
    r = {"id": f"{pid}.rx/first-char-coverage", "engine": "z3-regex", "functions": FN, "bounds": bounds,
         "queries": len(q.log), "uncovered_characters": uncovered, "recorded_in_known_findings": sorted(known_uncovered),
         "solver_wall_s": round(time.time() - t0, 2)}
    if not new:
        r["result"] = "discharged"
        r["witness"] = {"covered_example": "a", "uncovered": uncovered}
    else:
        c = new[0].rstrip("?")
        ddl = f"CREATE TABLE t ( a int ) ;\nSELECT a {c} b ;"
        got = _api(scratch, ddl, silent=True)
        bad = isinstance(got, str) and got.startswith("EXC")
        r["result"] = "violation" if bad else "inconclusive"
        r["counterexample"] = {"character": c, "ddl": ddl, "silent": True, "got": got, "expected": "no exception under silent=True", "reproduced": bad}
    out.append(r)
    return out, uncovered


def literal_queries(scratch, pid, known_chars):
    """C07.rx: '<printable text without a quote>' is one STRING_BASE token; the characters the
    rule's class lacks are enumerated (each enumeration step is a z3 query)."""
    info, rules = _rules(scratch)
    q = rx.Q()
    names = [r[0] for r in rules]
    out = []
    for rule, quote, label in (("t_STRING_BASE", "'", "single-quoted"), ("t_DQ_STRING", '"', "double-quoted")):
        z = rules[names.index(rule)][2]
        if z is None:
            out.append({"id": f"{pid}.rx/{label}", "engine": "z3-regex", "functions": FN, "result": "inconclusive", "detail": "untranslatable"})
            continue
        c = z3.String("c")
        missing = []
        t0 = time.time()
        while True:
            cons = [z3.Length(c) == 1, rx.printable(c), c != z3.StringVal(quote),
                    z3.Not(z3.InRe(z3.Concat(z3.StringVal(quote), c, z3.StringVal(quote)), z))]
            cons += [c != z3.StringVal(m) for m in missing]
            ans, model = q.check(f"{label} char outside class", *cons, model_of=[c])
            if ans != "sat":
                break
            missing.append(model["c"])
            if len(missing) > 40:
                break
        body = z3.String("body")
        allowed = z3.Star(z3.Intersect(z3.Range(" ", "~"), z3.Complement(z3.Union(*[z3.Re(m) for m in missing + [quote]]))))
        ans2, m2 = q.check(f"{label} bodies over the covered characters", z3.InRe(body, allowed), z3.Length(body) <= 12,
                           z3.Not(z3.InRe(z3.Concat(z3.StringVal(quote), body, z3.StringVal(quote)), z)), model_of=[body])
        new = [m for m in missing if m not in known_chars.get(rule, [])]
        r = {"id": f"{pid}.rx/{label}-literal-is-one-token", "engine": "z3-regex", "functions": FN,
             "bounds": f"{quote}<body>{quote}, body over printable ASCII without the quote, length <= 12",
             "queries": len(q.log), "characters_outside_the_rule_class": missing, "recorded_in_known_findings": known_chars.get(rule, []),
             "solver_wall_s": round(time.time() - t0, 2)}
        if ans == "unsat" and ans2 == "unsat" and not new:
            r["result"] = "discharged"
            r["witness"] = {"example": quote + "a b" + quote}
        elif new or ans2 == "sat":
            ch = new[0] if new else m2["body"]
            lit = quote + "a" + ch + "b" + quote
            ddl = f"CREATE TABLE t ( a varchar ( 9 ) DEFAULT {lit} , b int ) ;" if quote == "'" else f"CREATE TABLE {lit} ( a int ) ;"
            got = _api(scratch, ddl)
            ok = isinstance(got, list) and got and lit in json.dumps(got[0]).replace('\\"', '"')
            r["result"] = "inconclusive" if ok else "violation"
            r["counterexample"] = {"literal": lit, "ddl": ddl, "got": got, "reproduced": not ok}
        else:
            r["result"] = "inconclusive"
        out.append(r)
    return out


def delimited_queries(scratch, pid):
    """C06.rx: "name", [name], `name` with a word body are single tokens"""
    info, rules = _rules(scratch)
    q = rx.Q()
    names = [r[0] for r in rules]
    w = z3.String("w")
    body = z3.Plus(rx.WORD)
    out = []
    forms = [('"', '"', "t_DQ_STRING"), ("[", "]", "t_ID"), ("`", "`", "t_ID")]
    for o, c, rule in forms:
        z = rules[names.index(rule)][2]
        lang = z3.Concat(z3.Re(o), body, z3.Re(c))
        earlier = [rx.prefix_language(zz, bb) for (n, _, zz, bb, _) in rules[:names.index(rule)] if zz is not None]
        cons = [z3.InRe(w, lang), z3.Length(w) <= 14]
        a1, m1 = q.check(f"{o}w{c} not in {rule}", *cons, z3.Not(z3.InRe(w, z)), model_of=[w])
        a2, m2 = ("unsat", None)
        if earlier:
            a2, m2 = q.check(f"{o}w{c} taken by an earlier rule", *cons, z3.InRe(w, z3.Union(*earlier)), model_of=[w])
        wit, wm = q.check("witness", *cons, z3.InRe(w, z), z3.Length(w) == 6, model_of=[w])
        oid = f"{pid}.rx/delimited/{o}w{c}"
        bounds = f"{o}<word characters>{c} of length <= 14 is matched whole by {rule} and by no earlier rule"
        if a1 == "unsat" and a2 == "unsat" and wit == "sat":
            out.append(rec(oid, "discharged", q, bounds, witness=wm, _n=3))
        else:
            word = (m1 or m2 or {}).get("w")
            ddl = f"CREATE TABLE {word} ( {word} int ) ;"
            got = _api(scratch, ddl)
            ok = isinstance(got, list) and got and got[0].get("table_name") == word
            out.append(rec(oid, "inconclusive" if ok else "violation", q, bounds, counterexample={"word": word, "ddl": ddl, "got": got, "reproduced": not ok}, _n=3))
    return out
