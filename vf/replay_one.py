"""Replay one counterexample concretely (no CrossHair): stdin = JSON request, last stdout
line = JSON result.  Runs with the scratch copy of the working tree first on sys.path."""
import ast
import importlib
import json
import sys
import traceback


def main():
    req = json.loads(sys.stdin.read())
    args = ast.literal_eval(req["args_repr"])
    mod = importlib.import_module("harness." + req["module"])
    out = {"unit_reproduced": False, "unit_detail": "", "api": None}
    fn = getattr(mod, req["func"])
    try:
        ok = fn(**args)
        out["unit_reproduced"] = ok is not True
        out["unit_detail"] = f"returned {ok!r}"
    except Exception as e:  # a crash of the real code is a failure of the condition
        out["unit_reproduced"] = True
        out["unit_detail"] = "raised " + "".join(traceback.format_exception_only(type(e), e)).strip()
    api = getattr(mod, "api_" + req["func"], None) if req.get("api") else None
    if api is not None:
        try:
            res = api(**args)
            out["api"] = json.loads(json.dumps(res, default=repr))
        except Exception as e:
            out["api"] = {"reproduced": True, "note": "public API raised",
                          "exception": "".join(traceback.format_exception_only(type(e), e)).strip()}
    print(json.dumps(out))


if __name__ == "__main__":
    main()
