"""Catalogue of LR step lemmas (vf.lr_bmc) and their runner; validation of the reference driver
against the real PLY driver on recorded token streams."""
import json
import subprocess
import time

from vf import lr
from vf.lr_bmc import END, Alt, Automaton, Lemma, Opt, Seq, T, strings
from vf.scratch import PY, VERIF, child_env

FN = ["LALR tables generated from the working tree's grammar (all p_* docstrings, tokens.py) by ply.yacc", "ply.yacc.LRParser.parseopt_notrack semantics (shift / reduce / goto / defaulted states / accept / error)"]

_RECORD = r'''
import json, sys
from simple_ddl_parser import DDLParser
ddls = json.loads(sys.stdin.read())
p = DDLParser("")
log = []
for i, prod in enumerate(p.yacc.productions):
    if getattr(prod, "callable", None):
        def mk(i, f):
            def w(ps):
                log.append(i)
                return f(ps)
            return w
        prod.callable = mk(i, prod.callable)
out = []
real_token = p.lexer.token
for ddl in ddls:
    toks = []
    def tk():
        t = real_token()
        if t is not None:
            toks.append(t.type)
        return t
    p.lexer.token = tk
    del log[:]
    p.set_default_flags_in_lexer()
    try:
        res = p.yacc.parse(ddl, lexer=p.lexer)
        ok = res is not None
    except Exception as e:
        ok = None
    out.append({"ddl": ddl, "tokens": list(toks), "accepted": ok, "reductions": list(log)})
print(json.dumps(out))
'''

CORPUS = [
    "CREATE TABLE t ( a int , b varchar ( 10 ) NOT NULL DEFAULT 'x' , PRIMARY KEY ( a ) )",
    "CREATE TABLE s . t ( a int PRIMARY KEY , b int REFERENCES o ( x ) ON DELETE CASCADE , c decimal ( 10 , 2 ) NULL )",
    "CREATE TABLE t ( a int , b int , CONSTRAINT k UNIQUE ( a , b ) , FOREIGN KEY ( a ) REFERENCES o ( x ) )",
    "CREATE SEQUENCE s . q INCREMENT BY 1 START WITH 5 NO MAXVALUE CACHE",
    "CREATE SEQUENCE q MINVALUE -1 NOORDER",
    "ALTER TABLE t ADD CONSTRAINT c FOREIGN KEY ( a ) REFERENCES o ( x )",
    "ALTER TABLE t DROP COLUMN a",
    "CREATE UNIQUE INDEX i ON t ( a DESC , b )",
    "CREATE TYPE ty AS ENUM ( 'a' , 'b' )",
    "CREATE SCHEMA IF NOT EXISTS sc",
    "CREATE TABLE t ( a int ) STORED AS PARQUET LOCATION 's3://x'",
    "CREATE TABLE t ( a int ) ENGINE = InnoDB DEFAULT CHARSET = utf8",
    "CREATE TABLE t ( a int ) TABLESPACE ts1",
    "SELECT a FROM t",
    "CREATE TABLE t ( a int",
    "DROP TABLE s . t",
]


def validate_reference_driver(scratch, aut):
    r = subprocess.run([PY, "-c", _RECORD], input=json.dumps(CORPUS), env=child_env(scratch), capture_output=True, text=True, cwd=VERIF, timeout=120)
    rows = json.loads(r.stdout.strip().splitlines()[-1])
    bad = []
    for row in rows:
        status, st, reds, pos = aut.run(row["tokens"])
        if (status == "accept") != bool(row["accepted"]) and row["accepted"] is not None:
            # the real driver reports acceptance through a non-None result; statements whose result is None are skipped here
            if row["accepted"]:
                bad.append((row["ddl"], "accept mismatch", status))
            continue
        if status == "accept" and reds != row["reductions"]:
            bad.append((row["ddl"], "reduction sequence differs", reds[:8], row["reductions"][:8]))
    return len(rows), bad


def clause_token_streams(scratch):
    """token types the real lexer produces for each catalogued clause (after the column list)"""
    cat = json.load(open(f"{VERIF}/catalog/clauses.json"))
    code = r'''
import json, sys
from simple_ddl_parser import DDLParser
cat = json.loads(sys.stdin.read())
p = DDLParser("")
out = []
for c in cat["clauses"]:
    text = p.pre_process_data((cat["body"] + " " + c["clause"]).encode("unicode_escape"))
    text = p.equal_without_space.sub(" = ", text)   # what pre_process_line does to every line
    p.set_default_flags_in_lexer()
    p.lexer.input(text)
    toks = []
    while True:
        t = p.lexer.token()
        if not t: break
        toks.append(t.type)
    out.append(toks)
p.set_default_flags_in_lexer(); p.lexer.input(p.pre_process_data(cat["body"].encode("unicode_escape")))
base = []
while True:
    t = p.lexer.token()
    if not t: break
    base.append(t.type)
print(json.dumps({"base": base, "clauses": out}))
'''
    r = subprocess.run([PY, "-c", code], input=json.dumps(cat), env=child_env(scratch), capture_output=True, text=True, cwd=VERIF, timeout=120)
    d = json.loads(r.stdout.strip().splitlines()[-1])
    n = len(d["base"])
    return d["base"], [t[n:] for t in d["clauses"]], [c["clause"] for c in cat["clauses"]]


OPT_STARTS = ["NOT", "NULL", "DEFAULT", "PRIMARY", "UNIQUE", "REFERENCES"]
SEQ_OPT = Alt(Seq(T("INCREMENT"), Opt(T("BY")), T("ID")), Seq(T("START"), Opt(T("WITH")), T("ID")), Seq(T("MINVALUE", "MAXVALUE"), T("ID")),
              Seq(T("NO"), T("MINVALUE", "MAXVALUE")), Seq(T("CACHE"), Opt(T("ID"))), T("ORDER", "NOORDER"))
SEQ_FOLLOW = ["INCREMENT", "START", "MINVALUE", "MAXVALUE", "NO", "CACHE", "ORDER", "NOORDER", END]
COL_OPT_PLAIN = Alt(Seq(T("NOT"), T("NULL")), T("NULL"), Seq(T("DEFAULT"), T("ID", "STRING_BASE", "NULL")), Seq(T("PRIMARY"), T("KEY")), T("UNIQUE"))
COL_OPT_REF = Seq(T("REFERENCES"), T("ID"), Opt(Seq(T("LP"), T("ID"), T("RP"))))
SIZE = Alt(Seq(T("LP"), T("ID"), T("RP")), Seq(T("LP"), T("ID"), T("COMMA"), T("ID"), T("RP")))


def lemmas(aut, pid, tier, scratch):
    """[(oid, Lemma, description)] for property pid"""
    out = []
    expr0 = [0, aut.goto[(0, aut.start)]]
    if pid == "C17":
        sigma = aut.boundary_stack(["CREATE", "SEQUENCE", "ID"], "INCREMENT")
        sigma2 = aut.boundary_stack(["CREATE", "SEQUENCE", "ID", "DOT", "ID"], "START")
        assert sigma == expr0 == sigma2, (sigma, sigma2, expr0)
        out.append(("C17.lr/option-step", Lemma(aut, "seq", sigma, SEQ_OPT, SEQ_FOLLOW, sigma, aut.start, 1, K=3),
                    "from the stack after CREATE SEQUENCE name: every option form (12 token strings) with every option start or end of input as follow "
                    "returns to the same stack with exactly one fold into the sequence dict => any subset, order and number of options"))
    if pid == "C01":
        for ctx, prefix in (("first", ["CREATE", "TABLE", "ID", "LP", "ID", "ID"]), ("later", ["CREATE", "TABLE", "ID", "LP", "ID", "ID", "COMMA", "ID", "ID"])):
            sc = aut.boundary_stack(prefix, "NOT")
            out.append((f"C01.lr/option-step/{ctx}-column", Lemma(aut, "opt", sc, COL_OPT_PLAIN, OPT_STARTS, sc, "defcolumn", 1, K=2),
                        f"{ctx} column, after name and type: NOT NULL / NULL / DEFAULT (id | 'str' | NULL) / PRIMARY KEY / UNIQUE followed by any option start "
                        "returns to the same stack with exactly one defcolumn fold => any number and order of these options"))
            out.append((f"C01.lr/ref-step/{ctx}-column", Lemma(aut, "ref", sc, COL_OPT_REF, ["DEFAULT", "PRIMARY", "UNIQUE"], sc, "defcolumn", 1, K=5),
                        f"{ctx} column: REFERENCES t [( c )] followed by DEFAULT / PRIMARY / UNIQUE returns to the same stack with one defcolumn fold "
                        "(follow NOT / NULL is the composite item `ref null`, follow REFERENCES a second reference: not in this lemma)"))
            out.append((f"C01.lr/column-close/{ctx}-column", Lemma(aut, "close", sc, Alt(COL_OPT_PLAIN, COL_OPT_REF), ["COMMA", "RP"], expr0, aut.start, 1, K=5),
                        f"{ctx} column: its last option followed by ',' or ')' folds the column into the table exactly once and leaves the stack [0, {aut.start}]"))
        if tier == "thorough":
            out.append(("C01.lr/column-head/later", Lemma(aut, "head", expr0, Seq(T("COMMA"), T("ID"), T("ID"), Opt(SIZE)), ["COMMA", "RP"], expr0, aut.start, 1, K=8),
                        "from [0, expr]: , name type [(n) | (p, s)] followed by ',' or ')' returns to [0, expr] with one fold"))
    if pid == "C02":
        pre = ["CREATE", "TABLE", "ID", "LP", "ID", "ID", "COMMA"]
        for name, head in (("primary-key", pre + ["PRIMARY", "KEY", "LP", "ID"]), ("unique", pre + ["UNIQUE", "LP", "ID"]),
                           ("foreign-key", pre + ["FOREIGN", "KEY", "LP", "ID"]),
                           ("references", pre + ["FOREIGN", "KEY", "LP", "ID", "RP", "REFERENCES", "ID", "LP", "ID"])):
            sp = aut.boundary_stack(head, "COMMA")
            out.append((f"C02.lr/name-list-step/{name}", Lemma(aut, "pid", sp, Seq(T("COMMA"), T("ID")), ["COMMA", "RP"], sp, "pid", 1, K=2),
                        f"inside the column list of a table-level {name} clause: `, name` followed by ',' or ')' returns to the same stack with exactly one `pid` fold "
                        "=> key / unique / foreign-key / referenced column lists of any length"))
        if tier == "thorough":
            PIDL = Seq(T("LP"), T("ID"), Opt(Seq(T("COMMA"), T("ID"))), T("RP"))
            item = Seq(T("COMMA"), Alt(Seq(T("PRIMARY"), T("KEY"), PIDL), Seq(T("UNIQUE"), PIDL)))
            out.append(("C02.lr/item-step/unnamed", Lemma(aut, "item", expr0, item, ["COMMA", "RP"], expr0, aut.start, 1, K=8),
                        "from [0, expr]: , PRIMARY KEY (a[, b]) | , UNIQUE (a[, b]) followed by ',' or ')' returns to [0, expr] with exactly one fold into the table"))
            named = Seq(T("COMMA"), T("CONSTRAINT"), T("ID"), Alt(Seq(T("PRIMARY"), T("KEY")), T("UNIQUE")), T("LP"), T("ID"), T("RP"))
            out.append(("C02.lr/item-step/named", Lemma(aut, "item", expr0, named, ["COMMA", "RP"], expr0, aut.start, 1, K=8),
                        "from [0, expr]: , CONSTRAINT n PRIMARY KEY (a) | , CONSTRAINT n UNIQUE (a) followed by ',' or ')' returns to [0, expr] with exactly one fold"))
    if pid == "C09":
        ANG = ["LT", "ID", "COMMAT", "RT"]
        for ctx, pre in (("first", ["CREATE", "TABLE", "ID", "LP", "ID"]), ("later", ["CREATE", "TABLE", "ID", "LP", "ID", "ID", "COMMA", "ID"])):
            for head in ("ID", "ARRAY"):
                st = aut.boundary_stack(pre + [head, "LT", "ID"], "RT")
                s_opt = aut.boundary_stack(pre + ["ID"], "NOT")   # the option stack of a plain-typed column (C01's lemmas start there)
                out.append((f"C09.lr/angle-step/{ctx}-column/{head}", Lemma(aut, "tid", st, T(*ANG), ANG, st, "tid", 1, K=1),
                            f"{ctx} column whose type starts `{head} <`: inside the angle brackets any of < name , > followed by any of them returns to the same stack with exactly one "
                            "`tid` fold => bracket nesting of any depth and any number of members stays one type"))
                if head == "ID":
                    out.append((f"C09.lr/angle-close/options/{ctx}-column", Lemma(aut, "tid", st, T("RT"), ["NOT", "NULL", "DEFAULT", "PRIMARY", "UNIQUE", "REFERENCES"], s_opt, "tid", 1, K=1),
                                f"{ctx} column: the last `>` followed by a column option start leaves exactly the stack a plain-typed column has there (C01's option lemmas apply unchanged)"))
                    out.append((f"C09.lr/angle-close/end/{ctx}-column", Lemma(aut, "tid", st, T("RT"), ["COMMA", "RP"], expr0, aut.start, 1, K=1),
                                f"{ctx} column: the last `>` followed by ',' or ')' folds the column into the table exactly once and leaves [0, {aut.start}]"))
    if pid == "C02":
        pre2 = ["CREATE", "TABLE", "ID", "LP", "ID", "ID", "COMMA"]
        for nm, head in (("unnamed", []), ("named", ["CONSTRAINT", "ID"])):
            s_fk = aut.boundary_stack(pre2 + head + ["FOREIGN", "KEY", "LP", "ID"], "RP")
            s_ref = aut.boundary_stack(pre2 + head + ["FOREIGN", "KEY", "LP", "ID", "RP", "REFERENCES", "ID", "LP", "ID"], "RP")
            s_on = aut.boundary_stack(pre2 + head + ["FOREIGN", "KEY", "LP", "ID", "RP", "REFERENCES", "ID", "LP", "ID", "RP"], "ON")
            out.append((f"C02.lr/fk-chain/head/{nm}", Lemma(aut, "fkh", expr0, Seq(T("COMMA"), *[T(x) for x in head], T("FOREIGN"), T("KEY"), T("LP"), T("ID")), ["COMMA", "RP"], s_fk, "pid", 1, K=5 + len(head)),
                        f"from [0, expr]: `, {' '.join(head)} FOREIGN KEY ( name` followed by ',' or ')' reaches the key-list stack (name-list-step then covers any list length)"))
            out.append((f"C02.lr/fk-chain/references/{nm}", Lemma(aut, "fkr", s_fk, Seq(T("RP"), T("REFERENCES"), T("ID"), Opt(Seq(T("DOT"), T("ID"))), T("LP"), T("ID")), ["COMMA", "RP"], s_ref, "pid", 1, K=6),
                        "from the key-list stack: `) REFERENCES [schema .] table ( name` followed by ',' or ')' reaches the referenced-list stack"))
            out.append((f"C02.lr/fk-chain/close/{nm}", Lemma(aut, "fkc", s_ref, T("RP"), ["COMMA", "RP"], expr0, aut.start, 1, K=1),
                        "from the referenced-list stack: `)` followed by ',' or ')' folds the foreign key into the table exactly once and leaves [0, expr]"))
            out.append((f"C02.lr/fk-chain/on-action/{nm}", Lemma(aut, "fko", s_on, Seq(T("ON"), T("DELETE", "UPDATE"), T("ID")), ["ON"], s_on, "ref", 1, K=3),
                        "after the referenced list: ON DELETE | UPDATE <action> followed by another ON returns to the same stack with one `ref` fold => both actions in any order"))
            out.append((f"C02.lr/fk-chain/on-action-close/{nm}", Lemma(aut, "fkoc", s_on, Seq(T("ON"), T("DELETE", "UPDATE"), T("ID")), ["COMMA", "RP"], expr0, aut.start, 1, K=3),
                        "after the referenced list: ON DELETE | UPDATE <action> followed by ',' or ')' folds the foreign key into the table exactly once"))
    if pid == "C11" and tier == "thorough":
        base, streams, names = clause_token_streams(scratch)
        cat = json.load(open(f"{VERIF}/catalog/clauses.json"))["clauses"]
        st = aut.boundary_stack(base, streams[0][0])
        assert st == expr0, (st, expr0)
        for i, (s_, n_, c) in enumerate(zip(streams, names, cat)):
            if not (0 < len(s_) <= 8):
                continue
            mode = c["mode"]
            others = [t_ for t_, c2 in zip(streams, cat) if c2["mode"] == mode and t_ and t_ != s_ and not (set(c2["keys"]) & set(c["keys"]))]
            starts = sorted({t_[0] for t_ in others} - {s_[0]})
            if mode == "oracle":
                starts = [x for x in starts if x != "ID"]  # recorded finding: ORGANIZATION INDEX after TABLESPACE / STORAGE
            frag = Seq(*[T(t) for t in s_])
            out.append((f"C11.lr/clause-step/{mode}/{i}", Lemma(aut, "clause", expr0, frag, starts + [END], expr0, aut.start, None, K=len(s_)),
                        f"from [0, expr] after the column list: clause `{n_}` (token types from the real lexer) followed by the first token of any other {mode} clause "
                        f"writing a different key, or by the end of input, is parsed without error and returns to [0, expr]"))
    return out


def _one(args):
    pid, tier, scratch, index, timeout = args
    tab = lr.gen_tables(scratch)
    aut = Automaton(tab)
    oid, lem, desc = lemmas(aut, pid, tier, scratch)[index]
    count_free = lem.count is None
    if count_free:
        lem.count = 1
    res = lem.check(timeout=timeout)
    q1, q2, w = res["Q1_no_error_and_returns"], res["Q2_reduction_count"], res["W_reachability"]
    rec = {"id": oid, "engine": "z3-bmc", "functions": FN,
           "bounds": f"{desc}; K={res['K']} tokens per item, T={res['T']} driver steps, stack depth D={res['D']}; "
                     f"{res['stats']['states']} reachable LR states, {res['stats']['action_entries']} action entries encoded",
           "queries": {"Q1": q1[0], "Q2": ("skipped" if count_free else q2[0]), "W": w[0]},
           "solver_wall_s": round(res["build_s"] + q1[2] + q2[2] + w[2], 1)}
    ok2 = True if count_free else q2[0] == "unsat"
    if q1[0] == "unsat" and ok2 and w[0] == "sat":
        rec["result"] = "discharged"
        rec["witness"] = w[1]
    elif q1[0] == "sat" or (not count_free and q2[0] == "sat"):
        model = q1[1] if q1[0] == "sat" else q2[1]
        rp = lem.replay(model)
        rec["counterexample"] = {"model": model, "reference_driver_replay": rp, "reproduced": not rp["ok"]}
        if rp["ok"]:
            rec["result"] = "inconclusive"
            rec["detail"] = "bound too small (T / D) or encoding mismatch: the model does not reproduce on the reference driver"
        else:
            rec["result"] = "violation"
    else:
        rec["result"] = "inconclusive"
        rec["detail"] = f"solver answers {q1[0]}/{q2[0]}/{w[0]}"
    return rec


def run_lemmas(pid, tier, scratch, timeout=900):
    from concurrent.futures import ProcessPoolExecutor
    tab = lr.gen_tables(scratch)
    aut = Automaton(tab)
    records = []
    t0 = time.time()
    n, bad = validate_reference_driver(scratch, aut)
    records.append({"id": f"{pid}.lr/reference-driver-validation", "engine": "concrete", "functions": FN,
                    "bounds": f"{n} recorded token streams: the 30-line reference driver used to compute boundary stacks and to replay models agrees with the real ply driver "
                              "(acceptance and exact reduction sequence)",
                    "result": "discharged" if not bad else "error", "detail": str(bad[:3]) if bad else "", "witness": {"streams": n},
                    "solver_wall_s": round(time.time() - t0, 2)})
    try:
        items = lemmas(aut, pid, tier, scratch)
    except (AssertionError, KeyError, ValueError) as e:
        records.append({"id": f"{pid}.lr/setup", "engine": "z3-bmc", "functions": FN, "result": "inconclusive",
                        "detail": f"lemma set-up does not fit the regenerated grammar: {e!r}", "solver_wall_s": 0.0})
        return records
    with ProcessPoolExecutor(max_workers=min(8, max(1, len(items)))) as ex:
        for rec in ex.map(_one, [(pid, tier, scratch, i, timeout) for i in range(len(items))]):
            records.append(rec)
    return records
