"""CrossHair runner: one OS process per condition, 16 at a time.

A *condition* is a function in /verif/harness/<mod>.py whose docstring carries PEP-316
`pre:` / `post: _` lines and which returns True when the property holds for its arguments.
Structural choices (item form, output mode, ...) are fixed per process through environment
variables; the solver quantifies over the function's arguments.

For every condition a *twin* is generated (same source, `post: _` replaced by
`post: not _`): CrossHair must return a counterexample for it, i.e. a concrete input that
satisfies the preconditions, runs to the end and makes the property evaluate to True
(reachability / non-vacuity witness).
"""
import ast
import json
import os
import re
import subprocess
import time
from concurrent.futures import ThreadPoolExecutor
from dataclasses import dataclass, field
from typing import Dict, List, Optional

from vf.scratch import PY, VERIF, child_env

JOBS = int(os.environ.get("VERIF_JOBS", "16"))


@dataclass
class Ob:
    oid: str  # "C17.val/INCREMENT_BY"
    module: str  # "c17"  -> /verif/harness/c17.py
    func: str  # condition name
    env: Dict[str, str] = field(default_factory=dict)
    timeout: int = 60  # CrossHair --per_condition_timeout (CPU seconds for this condition)
    functions: List[str] = field(default_factory=list)  # real functions executed symbolically
    bounds: str = ""
    api: bool = True  # module defines api_<func>(**args) replaying through the public API
    twin: bool = True
    known: Optional[str] = None  # id of a known-finding class excluded by the precondition


@dataclass
class Res:
    ob: Ob
    verdict: str  # confirmed | counterexample | not_confirmed | unmet_precondition | error
    detail: str = ""
    args: Optional[dict] = None
    wall_s: float = 0.0
    witness: Optional[dict] = None  # twin's counterexample args (reachability witness)
    witness_verdict: str = ""
    replay: Optional[dict] = None


_line_cache: Dict[str, Dict[str, int]] = {}


def func_line(path: str, func: str) -> int:
    if path not in _line_cache:
        tree = ast.parse(open(path).read())
        _line_cache[path] = {n.name: n.lineno for n in tree.body if isinstance(n, ast.FunctionDef)}
    return _line_cache[path][func]


def harness_path(module: str) -> str:
    return os.path.join(VERIF, "harness", module + ".py")


def make_twin(scratch: str, module: str) -> str:
    """Copy of the harness with every `post: _` turned into `post: not _`."""
    src = open(harness_path(module)).read()
    tw = re.sub(r"^(\s*)post: _\s*$", r"\1post: not _", src, flags=re.M)
    d = os.path.join(scratch, "harness_twin")
    os.makedirs(d, exist_ok=True)
    p = os.path.join(d, module + ".py")
    with open(p, "w") as f:
        f.write(tw)
    return p


_CALL_RE = re.compile(r"when calling (\w+)\((.*)$", re.S)
_params_cache: Dict[str, Dict[str, List[str]]] = {}


def func_params(path: str, func: str) -> List[str]:
    if path not in _params_cache:
        tree = ast.parse(open(path).read())
        _params_cache[path] = {n.name: [a.arg for a in n.args.args] for n in tree.body if isinstance(n, ast.FunctionDef)}
    return _params_cache[path][func]


def parse_args(msg: str, params: List[str]) -> Optional[dict]:
    """`... when calling f(1, 'x', flag=True) (which returns False)` -> {param: value}."""
    m = _CALL_RE.search(msg.strip())
    if not m:
        return None
    body = m.group(2)
    body = re.sub(r"\)\s*\(which returns.*$", ")", body, flags=re.S).rstrip()
    if not body.endswith(")"):
        return None
    body = body[:-1]

    def cap(*a, **k):
        return a, k

    try:
        a, k = eval("cap(" + body + ")", {"__builtins__": {}}, {"cap": cap, "float": float, "set": set, "frozenset": frozenset})
    except Exception:
        return None
    out = dict(zip(params, a))
    out.update(k)
    return out


def run_crosshair(path: str, func: str, env: dict, timeout: int):
    line = func_line(path, func)
    cmd = [PY, "-m", "crosshair", "check", "--report_all", "--per_condition_timeout", str(timeout),
           f"{path}:{line}"]
    t0 = time.time()
    try:
        r = subprocess.run(cmd, env=env, capture_output=True, text=True, timeout=timeout * 2 + 120, cwd=VERIF)
        out = (r.stdout or "") + (r.stderr or "")
    except subprocess.TimeoutExpired as e:
        out = "OUTER-TIMEOUT " + str(e.stdout or "")
    wall = time.time() - t0
    verdict, detail, args = classify(out, func_params(path, func))
    return verdict, detail, args, wall


def classify(out: str, params: List[str]):
    lines = [ln for ln in out.splitlines() if ln.strip()]
    for ln in lines:
        if ": error:" in ln:
            msg = ln.split(": error:", 1)[1].strip()
            # multi-line messages: take everything after the marker in the raw output
            idx = out.index(ln)
            full = out[idx:].split(": error:", 1)[1].strip()
            return "counterexample", full, parse_args(full, params)
    for ln in lines:
        if "Confirmed over all paths" in ln:
            return "confirmed", ln.strip(), None
    for ln in lines:
        if "Unable to meet precondition" in ln:
            return "unmet_precondition", ln.strip(), None
    for ln in lines:
        if "Not confirmed" in ln:
            return "not_confirmed", ln.strip(), None
    return "error", out[-1500:], None


def run_obligations(obs: List[Ob], scratch: str, progress=None) -> List[Res]:
    twins = {}
    for ob in obs:
        if ob.twin and ob.module not in twins:
            twins[ob.module] = make_twin(scratch, ob.module)

    def job(kind, ob):
        env = child_env(scratch, ob.env)
        path, tmo = (harness_path(ob.module), ob.timeout) if kind == "main" else (twins[ob.module], min(ob.timeout, 60))
        res = run_crosshair(path, ob.func, env, tmo)
        if res[0] == "error":
            # no verdict line at all (e.g. the process was killed, or the machine is overloaded): one retry before reporting
            res = run_crosshair(path, ob.func, env, tmo)
        return kind, ob, res

    results = {ob.oid: Res(ob=ob, verdict="error") for ob in obs}
    tasks = []
    # longest first
    for ob in sorted(obs, key=lambda o: -o.timeout):
        tasks.append(("main", ob))
    for ob in obs:
        if ob.twin:
            tasks.append(("twin", ob))
    with ThreadPoolExecutor(max_workers=JOBS) as ex:
        for kind, ob, (verdict, detail, args, wall) in ex.map(lambda t: job(*t), tasks):
            r = results[ob.oid]
            if kind == "main":
                r.verdict, r.detail, r.args, r.wall_s = verdict, detail, args, wall
            else:
                r.witness_verdict = verdict
                r.witness = args
            if progress:
                progress(kind, ob, verdict, wall)
    return [results[ob.oid] for ob in obs]


def replay(scratch: str, ob: Ob, args: dict) -> dict:
    """Concrete re-execution of the condition (no CrossHair) on a scratch copy of the
    unpatched working tree, plus the public-API rendering when the harness provides one."""
    payload = json.dumps({"module": ob.module, "func": ob.func, "args_repr": repr(args), "api": ob.api})
    r = subprocess.run([PY, "-m", "vf.replay_one"], input=payload, env=child_env(scratch, ob.env),
                       capture_output=True, text=True, timeout=300, cwd=VERIF)
    try:
        return json.loads(r.stdout.strip().splitlines()[-1])
    except Exception:
        return {"error": (r.stdout + r.stderr)[-2000:], "unit_reproduced": False, "api": None}
