"""LR engine, part 1: the LALR tables as data and z3 equality queries over them.

gen_tables(scratch, hashseed)      fresh generation in memory from the scratch copy's grammar
                                   (ParserReflect -> Grammar -> LRGeneratedTable; no file written)
file_tables(path)                  a parsetab.py read as data (never imported as a module of /repo)
runtime_tables(scratch_dir)        what yacc.yacc() hands the library under a given cache state
differ(t1, t2)                     z3: is there an index at which action / goto / productions differ?
"""
import json
import os
import shutil
import subprocess
import tempfile
import time

import z3

from vf.scratch import PY, REPO, VERIF, child_env

_GEN = r'''
import json, sys
from ply import yacc
from simple_ddl_parser.ddl_parser import DDLParser
obj = DDLParser.__new__(DDLParser)          # un-initialised instance: only the class's p_* / tokens are reflected
pinfo = yacc.ParserReflect({k: getattr(obj, k) for k in dir(obj) if not k.startswith("__")}, log=yacc.NullLogger())
pinfo.get_all()
sig = pinfo.signature()
if pinfo.validate_all():                  # ply.yacc.yacc(): `if pinfo.validate_all(): raise YaccError('Unable to build parser')`
    raise yacc.YaccError("Unable to build parser (the grammar module fails PLY's own validation)")
g = yacc.Grammar(pinfo.tokens)
for term, assoc, level in pinfo.preclist:
    g.set_precedence(term, assoc, level)
for funcname, gram in pinfo.grammar:
    file, line, prodname, syms = gram
    g.add_production(prodname, syms, funcname, file, line)
g.set_start(pinfo.start)
g.undefined_symbols(); g.unused_terminals(); g.unused_rules(); g.infinite_cycles()
lr = yacc.LRGeneratedTable(g, "LALR", yacc.NullLogger())
prods = [[p.str, p.name, p.len, p.func] for p in lr.lr_productions]
print(json.dumps({"signature": sig, "method": "LALR", "tabversion": yacc.__tabversion__,
                  "action": [[s, t, a] for s, row in lr.lr_action.items() for t, a in row.items()],
                  "goto": [[s, n, g2] for s, row in lr.lr_goto.items() for n, g2 in row.items()],
                  "productions": prods, "start": g.Productions[0].prod[0],
                  "terminals": sorted(g.Terminals), "nonterminals": sorted(g.Nonterminals),
                  "sr": len(lr.sr_conflicts), "rr": len(lr.rr_conflicts)}))
'''

_RUNTIME = r'''
import json
try:
    import simple_ddl_parser.cli as _cli_first  # imported before any parser exists (as `sdp` does)
    _cli = "ok"
except Exception as e:
    _cli = "EXC " + type(e).__name__
from simple_ddl_parser import DDLParser
p = DDLParser("")
lr = p.yacc
prods = [[q.str, q.name, q.len, getattr(q, "func", None), getattr(getattr(q, "callable", None), "__name__", None)] for q in lr.productions]
res = {}
res["cli_import"] = _cli
for name, ddl in [("t", "CREATE TABLE t (a int, b varchar(3) NOT NULL);"), ("alter_pk", "CREATE TABLE t (a int, b int);\nALTER TABLE t ADD PRIMARY KEY (a, b);"),
                  ("drop", "DROP TABLE s.old_users;"), ("seq", "CREATE SEQUENCE q START 1;")]:
    try:
        res[name] = DDLParser(ddl).run()
    except Exception as e:
        res[name] = "EXC " + type(e).__name__
print(json.dumps({"action": [[s, t, a] for s, row in lr.action.items() for t, a in row.items()],
                  "goto": [[s, n, g2] for s, row in lr.goto.items() for n, g2 in row.items()],
                  "productions": prods, "results": res}))
'''


class ScratchRunError(RuntimeError):
    """a helper script failed on the scratch copy of the working tree (the code under test, not the harness)"""


def _run(code, scratch, extra_env=None, cwd=None):
    r = subprocess.run([PY, "-c", code], env=child_env(scratch, extra_env), capture_output=True, text=True, cwd=cwd or scratch, timeout=300)
    if r.returncode != 0:
        raise ScratchRunError(r.stderr[-1500:])
    return json.loads(r.stdout.strip().splitlines()[-1])


def gen_tables(scratch, hashseed=0):
    return _run(_GEN, scratch, {"PYTHONHASHSEED": hashseed})


def runtime_tables(scratch):
    return _run(_RUNTIME, scratch)


def file_tables(path):
    ns = {}
    exec(compile(open(path).read(), path, "exec"), ns)
    action = [[s, t, a] for s, row in ns["_lr_action"].items() for t, a in row.items()]
    goto = [[s, n, g] for s, row in ns["_lr_goto"].items() for n, g in row.items()]
    prods = [[p[0], p[1], p[2], p[3]] for p in ns["_lr_productions"]]
    return {"signature": ns["_lr_signature"], "tabversion": ns["_tabversion"], "method": ns["_lr_method"], "action": action, "goto": goto,
            "productions": prods}


# ---------------------------------------------------------------- z3 comparison ---------------
def _tree(k, items):
    """balanced decision tree: integer key -> value, 0 elsewhere"""
    if not items:
        return z3.IntVal(0)
    if len(items) == 1:
        return z3.If(k == items[0][0], z3.IntVal(items[0][1]), z3.IntVal(0))
    mid = len(items) // 2
    return z3.If(k < items[mid][0], _tree(k, items[:mid]), _tree(k, items[mid:]))


def _intern(*lists):
    ids = {}
    for lst in lists:
        for x in lst:
            if x not in ids:
                ids[x] = len(ids) + 1
    return ids


def differ(t1, t2, label1="A", label2="B"):
    """[(what, answer, model, seconds)] for action / goto / productions"""
    syms = _intern([e[1] for e in t1["action"] + t1["goto"]], [e[1] for e in t2["action"] + t2["goto"]])
    out = []
    k = z3.Int("k")
    W = len(syms) + 2
    for what in ("action", "goto"):
        a = sorted((s * W + syms[t], v if what == "action" else v) for s, t, v in t1[what] if v is not None)
        b = sorted((s * W + syms[t], v) for s, t, v in t2[what] if v is not None)
        t0 = time.time()
        s = z3.Solver()
        s.set("timeout", 120000)
        s.add(_tree(k, a) != _tree(k, b))
        ans = str(s.check())
        model = None
        if ans == "sat":
            kv = s.model()[k].as_long()
            inv = {v: n for n, v in syms.items()}
            st, sy = divmod(kv, W)
            d1 = {(x, y): v for x, y, v in t1[what]}
            d2 = {(x, y): v for x, y, v in t2[what]}
            model = {"state": st, "symbol": inv.get(sy), label1: d1.get((st, inv.get(sy))), label2: d2.get((st, inv.get(sy)))}
        out.append({"table": what, "entries": [len(a), len(b)], "answer": ans, "model": model, "solver_s": round(time.time() - t0, 2)})
    # productions: text, lhs, length, action function name
    strs = _intern([str(x) for p in t1["productions"] for x in p[:4]], [str(x) for p in t2["productions"] for x in p[:4]])
    t0 = time.time()
    s = z3.Solver()
    s.set("timeout", 120000)
    diffs = []
    for field in range(4):
        a = sorted((i, strs[str(p[field])]) for i, p in enumerate(t1["productions"]))
        b = sorted((i, strs[str(p[field])]) for i, p in enumerate(t2["productions"]))
        diffs.append(_tree(k, a) != _tree(k, b))
    s.add(z3.Or(*diffs))
    ans = str(s.check())
    model = None
    if ans == "sat":
        i = s.model()[k].as_long()
        model = {"production": i, label1: t1["productions"][i] if i < len(t1["productions"]) else None,
                 label2: t2["productions"][i] if i < len(t2["productions"]) else None}
    out.append({"table": "productions", "entries": [len(t1["productions"]), len(t2["productions"])], "answer": ans, "model": model,
                "solver_s": round(time.time() - t0, 2)})
    return out


def norm_file_productions(t):
    """production 0 is written with None, None for file/line and func None; compare (text, lhs, len, func)"""
    return t


def scratch_with_cache(state, fresh_sig):
    """a scratch copy of the working tree whose parsetab.py is put into the given cache state"""
    from vf.scratch import make_scratch
    d = make_scratch(warm=False, tag="sdpv-cache")
    pt = os.path.join(d, "simple_ddl_parser", "parsetab.py")
    src = open(pt).read()
    if state == "valid":
        # a valid cache: regenerate once so that the file's signature is the grammar's
        subprocess.run([PY, "-c", "from simple_ddl_parser import DDLParser; DDLParser('')"], env=child_env(d), cwd=d, capture_output=True)
    elif state == "missing":
        os.remove(pt)
    elif state == "stale_signature":
        # signature of another grammar AND a table that differs from this grammar's: a correct
        # loader must not use it
        subprocess.run([PY, "-c", "from simple_ddl_parser import DDLParser; DDLParser('')"], env=child_env(d), cwd=d, capture_output=True)
        src = open(pt).read()
        src = src.replace("_lr_signature = '", "_lr_signature = 'STALE ", 1)
        src = src.replace("_lr_productions = [", "_lr_productions = [\n  (\"S' -> bogus\",\"S'\",1,None,None,None),", 1)
        src = src.replace("_lr_action_items = {", "_lr_action_items = {'BOGUS_TERMINAL':([0,],[999,]),", 1)
        open(pt, "w").write(src)
    elif state == "old_tabversion":
        subprocess.run([PY, "-c", "from simple_ddl_parser import DDLParser; DDLParser('')"], env=child_env(d), cwd=d, capture_output=True)
        src = open(pt).read()
        src = src.replace("_tabversion = '3.10'", "_tabversion = '3.5'", 1)
        src = src.replace("_lr_action_items = {", "_lr_action_items = {'BOGUS_TERMINAL':([0,],[999,]),", 1)
        open(pt, "w").write(src)
    for root, dirs, files in os.walk(d):
        for dd in dirs:
            if dd == "__pycache__":
                shutil.rmtree(os.path.join(root, dd), ignore_errors=True)
    return d
