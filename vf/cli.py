"""./check <property-id> [--tier quick|thorough] [--replay file]

Runs every obligation registered for the property in /verif/props/<id>.py against a scratch
copy of /repo's current working tree, replays counterexamples against the real code, writes
/verif/evidence/<id>.json and prints VIOLATION / KNOWN-FINDING lines.

exit 0: nothing violated (obligations discharged or inconclusive - evidence says which)
exit 1: a reproduced violation that known_findings.json does not list
exit 2: harness error (nothing is claimed)
"""
import argparse
import hashlib
import importlib
import json
import os
import sys
import time
import traceback

from vf import ch
from vf.known import replay_witness
from vf.scratch import VERIF, drop, make_scratch

TRUSTED = [
    "CPython 3.12 and its str/int/dict/re semantics",
    "PLY 3.11 (lex/yacc driver, LALR generator) as installed in /venv",
    "CrossHair 0.0.110 symbolic models of builtins and its path exhaustion verdicts",
    "z3 5.1.0",
    "the composition of per-layer lemmas through the interface contracts of DESIGN.md section 2.3 (paper argument)",
]


def load_known(pid):
    p = os.path.join(VERIF, "known_findings.json")
    if not os.path.exists(p):
        return []
    data = json.load(open(p))
    return [e for e in data.get("findings", []) if e.get("property") == pid]


def save_replay(pid, record) -> str:
    d = os.path.join(VERIF, "replays")
    os.makedirs(d, exist_ok=True)
    blob = json.dumps(record, sort_keys=True, default=repr)
    h = hashlib.sha1(blob.encode()).hexdigest()[:10]
    path = os.path.join(d, f"{pid}-{h}.json")
    with open(path, "w") as f:
        f.write(json.dumps(record, indent=1, default=repr))
    return path


def main(argv=None):
    ap = argparse.ArgumentParser()
    ap.add_argument("pid")
    ap.add_argument("--tier", default=os.environ.get("VERIF_TIER", "quick"), choices=["quick", "thorough"])
    ap.add_argument("--replay", default=None)
    ap.add_argument("--only", default=None, help="substring filter on obligation ids (debugging)")
    a = ap.parse_args(argv)
    pid = a.pid.upper()
    seed = int(os.environ.get("VERIF_SEED", "0") or 0)
    t0 = time.time()
    try:
        prop = importlib.import_module("props." + pid.lower())
    except ModuleNotFoundError:
        print(f"no check registered for {pid}", file=sys.stderr)
        return 2

    if a.replay:
        return do_replay(pid, prop, a.replay)

    scratch = make_scratch()
    records, violations, findings_hit = [], [], []
    try:
        known = load_known(pid)
        # 1. known findings: confirm each listed open finding still stands (public API replay)
        for e in known:
            if e.get("status") != "open":
                continue
            still = prop.replay_known(scratch, e) if hasattr(prop, "replay_known") else replay_witness(scratch, e)
            rec = {"id": f"{pid}.known/{e['id']}", "engine": "replay", "result": "finding" if still else "finding-not-reproduced",
                   "what": e["what"], "witness": e.get("witness")}
            records.append(rec)
            if still:
                print(f"KNOWN-FINDING: property={pid} {e['id']}: {e['what']}")
                findings_hit.append(e["id"])
            else:
                print(f"note: listed finding {e['id']} no longer reproduces on this tree", file=sys.stderr)

        # 2. CrossHair obligations
        obs = prop.obligations(a.tier) if hasattr(prop, "obligations") else []
        if a.only:
            obs = [o for o in obs if a.only in o.oid]

        def progress(kind, ob, verdict, wall):
            print(f"  [{kind:4}] {ob.oid:60} {verdict:18} {wall:6.1f}s", file=sys.stderr, flush=True)

        results = ch.run_obligations(obs, scratch, progress) if obs else []
        for r in results:
            rec = {"id": r.ob.oid, "engine": "CrossHair", "functions": r.ob.functions, "bounds": r.ob.bounds,
                   "structural_choice": r.ob.env, "per_condition_timeout_s": r.ob.timeout,
                   "solver_wall_s": round(r.wall_s, 1), "excluded_known_class": r.ob.known}
            if r.verdict == "confirmed":
                if not r.ob.twin or r.witness_verdict == "counterexample":
                    rec["result"] = "discharged"
                    rec["witness"] = r.witness
                else:
                    rec["result"] = "inconclusive"
                    rec["detail"] = f"confirmed but reachability twin gave {r.witness_verdict}"
            elif r.verdict == "counterexample":
                rep = ch.replay(scratch, r.ob, r.args) if r.args is not None else {"unit_reproduced": False, "error": "unparsed counterexample"}
                rec["counterexample"] = {"args": r.args, "message": r.detail[:600], "replay": rep}
                api = rep.get("api")
                reproduced = rep.get("unit_reproduced") and (api is None or api.get("reproduced"))
                if reproduced:
                    rec["result"] = "violation"
                    path = save_replay(pid, {"property": pid, "obligation": r.ob.oid, "module": r.ob.module, "func": r.ob.func,
                                             "env": r.ob.env, "args_repr": repr(r.args), "api_flag": r.ob.api, "replay": rep})
                    violations.append((r.ob.oid, path, rep))
                else:
                    rec["result"] = "inconclusive"
                    rec["detail"] = "counterexample did not reproduce against the real code (unit or public API); not reported"
                    print(f"UNCONFIRMED: {r.ob.oid} counterexample {r.args} did not reproduce", file=sys.stderr)
            elif r.verdict == "not_confirmed":
                rec["result"] = "inconclusive"
                rec["detail"] = "CrossHair explored paths without a counterexample but did not exhaust them in the budget"
            elif r.verdict == "unmet_precondition":
                rec["result"] = "inconclusive"
                rec["detail"] = "CrossHair: unable to meet precondition (vacuous or every path aborted)"
            else:
                rec["result"] = "error"
                rec["detail"] = r.detail[-800:]
            records.append(rec)

        # 3. other engines (z3 LR / regex queries) registered by the property module
        if hasattr(prop, "solver_queries"):
            from vf.lr import ScratchRunError
            try:
                solver_records = list(prop.solver_queries(a.tier, scratch))
            except ScratchRunError as e:
                # e.g. the working tree's grammar cannot be turned into LALR tables: the table-level lemmas of this
                # property cannot be stated on this tree (C20 decides whether that breaks a property); nothing is claimed
                solver_records = [{"id": f"{pid}.solver/setup", "engine": "z3", "functions": [], "result": "inconclusive", "solver_wall_s": 0.0,
                                   "bounds": "solver queries of this property", "detail": "helper script failed on the working tree: " + str(e)[-500:]}]
            for rec in solver_records:
                if a.only and a.only not in rec["id"]:
                    continue
                print(f"  [{rec.get('engine','z3'):4}] {rec['id']:60} {rec['result']:18} {rec.get('solver_wall_s', 0):6.1f}s", file=sys.stderr, flush=True)
                records.append(rec)
                if rec["result"] == "violation":
                    path = save_replay(pid, {"property": pid, "obligation": rec["id"], "solver_record": rec})
                    violations.append((rec["id"], path, rec.get("counterexample")))
    except Exception:
        traceback.print_exc()
        drop(scratch)
        return 2
    drop(scratch)

    errors = [r for r in records if r["result"] == "error"]
    write_evidence(pid, a.tier, seed, records, violations, time.time() - t0, getattr(prop, "ASSUMPTIONS", []),
                   getattr(prop, "OUTSIDE", []))
    for oid, path, rep in violations:
        print(f"VIOLATION property={pid} replay={path}")
        print(f"  obligation {oid}: {json.dumps(rep, default=repr)[:700]}")
    n = len([r for r in records if r['result'] == 'discharged'])
    inc = len([r for r in records if r['result'] == 'inconclusive'])
    print(f"{pid} {a.tier}: {len(records)} obligations, {n} discharged, {inc} inconclusive, "
          f"{len(findings_hit)} known findings, {len(violations)} violations, {len(errors)} errors, {time.time()-t0:.0f}s")
    if violations:
        return 1
    if errors:
        for e in errors:
            print("harness error:", e["id"], e.get("detail", "")[-400:], file=sys.stderr)
        return 2
    return 0


def write_evidence(pid, tier, seed, records, violations, wall, assumptions, outside):
    discharged = [r for r in records if r["result"] == "discharged"]
    inconclusive = [r for r in records if r["result"] == "inconclusive"]
    samples = []
    for r in records:
        if r.get("witness") is not None and len(samples) < 6:
            samples.append({"obligation": r["id"], "reachability_witness": r["witness"]})
    for r in records:
        if r.get("counterexample") and len(samples) < 10:
            samples.append({"obligation": r["id"], "counterexample": r["counterexample"]})
    if not samples:
        samples = [{"obligation": r["id"], "result": r["result"]} for r in records[:3]]
    ev = {
        "property_id": pid,
        "tier": tier,
        "seed": seed,
        "level": "model_checking",
        "coverage": {
            "evaluations": len(records),
            "distinct_nontrivial": len({r["id"] for r in records if r["result"] in ("discharged", "violation", "finding")}),
            "rule": "one evaluation = one solver-decided obligation (a CrossHair condition explored over all paths within "
                    "its precondition bounds, or one z3 query); non-trivial = decided: discharged (confirmed over all paths / unsat, "
                    "with its reachability witness found) or refuted by a counterexample that reproduced against the real code; "
                    "inconclusive ones are not counted",
            "obligations": len(records),
            "discharged": len(discharged),
            "inconclusive": len(inconclusive),
            "findings": len([r for r in records if r["result"] == "finding"]),
            "solver_wall_s_total": round(sum(r.get("solver_wall_s", 0) for r in records), 1),
            "samples": json.loads(json.dumps(samples, default=repr)),
            "obligation_list": json.loads(json.dumps(records, default=repr)),
            "trusted_base": TRUSTED,
            "outside_the_claim": outside,
            "exhaustive": False,
            "explanation": "bounded symbolic checking of the real functions; every bound is in the obligation's 'bounds' field",
        },
        "assumptions": list(assumptions),
        "wall_s": round(wall, 1),
        "violations": len(violations),
    }
    # (VERIF_EVIDENCE_DIR: used by tools/seed_run.sh so that runs against a seeded change never touch /verif/evidence)
    evdir = os.environ.get("VERIF_EVIDENCE_DIR") or os.path.join(VERIF, "evidence")
    os.makedirs(evdir, exist_ok=True)
    with open(os.path.join(evdir, f"{pid}.json"), "w") as f:
        json.dump(ev, f, indent=1)


def do_replay(pid, prop, path):
    rec = json.load(open(path))
    scratch = make_scratch()
    try:
        if "module" in rec:
            import ast as _ast
            ob = ch.Ob(oid=rec["obligation"], module=rec["module"], func=rec["func"], env=rec.get("env", {}), api=rec.get("api_flag", True))
            rep = ch.replay(scratch, ob, _ast.literal_eval(rec["args_repr"]))
            print(json.dumps(rep, indent=1, default=repr))
            api = rep.get("api")
            bad = rep.get("unit_reproduced") and (api is None or api.get("reproduced"))
        elif hasattr(prop, "replay_solver_record"):
            bad = prop.replay_solver_record(scratch, rec["solver_record"])
        else:
            print("nothing to replay")
            return 2
    finally:
        drop(scratch)
    if bad:
        print(f"VIOLATION property={pid} replay={path}")
        return 1
    print("did not reproduce on this tree")
    return 0


if __name__ == "__main__":
    sys.exit(main())
