"""RX engine: PLY token rules -> z3 regular expressions, language queries decided by z3.

The rule list, its order and the ignore set are read from the lexer PLY actually builds for the
scratch copy (subprocess); each rule's pattern is parsed with Python's own regex parser
(re._parser) and translated node by node.  Unsupported constructs make the translator refuse
(the obligation is then inconclusive), never guess.
"""
import json
import re
import re._constants as sc
import re._parser as sp
import subprocess
import time

import z3

from vf.scratch import PY, VERIF, child_env

_DUMP = r'''
import json
from simple_ddl_parser import DDLParser
p = DDLParser("")
lx = p.lexer
rules = []
for rx, names in lx.lexstatere["INITIAL"]:
    for item in names:
        if item and item[0] is not None:
            f = item[0]
            rules.append({"name": f.__name__, "pattern": f.__doc__})
print(json.dumps({"rules": rules, "ignore": lx.lexignore, "master": [rx.pattern for rx, _ in lx.lexstatere["INITIAL"]]}))
'''


def lexer_rules(scratch):
    r = subprocess.run([PY, "-c", _DUMP], env=child_env(scratch), capture_output=True, text=True, cwd=VERIF, timeout=120)
    return json.loads(r.stdout.strip().splitlines()[-1])


class Unsupported(Exception):
    pass


WORD = z3.Union(z3.Range("a", "z"), z3.Range("A", "Z"), z3.Range("0", "9"), z3.Re("_"))
DIGIT = z3.Range("0", "9")
SPACE = z3.Union(*[z3.Re(c) for c in " \t\n\r\f\v"])
ANYCHAR = z3.AllChar(z3.ReSort(z3.StringSort()))
FULL = z3.Full(z3.ReSort(z3.StringSort()))
EMPTY = z3.Re("")


def _char_re(code, icase):
    ch = chr(code)
    if icase and ch.lower() != ch.upper():
        return z3.Union(z3.Re(ch.lower()), z3.Re(ch.upper()))
    return z3.Re(ch)


def _category(cat):
    if cat == sc.CATEGORY_WORD:
        return WORD
    if cat == sc.CATEGORY_DIGIT:
        return DIGIT
    if cat == sc.CATEGORY_SPACE:
        return SPACE
    if cat == sc.CATEGORY_NOT_WORD:
        return z3.Intersect(ANYCHAR, z3.Complement(WORD))
    if cat == sc.CATEGORY_NOT_DIGIT:
        return z3.Intersect(ANYCHAR, z3.Complement(DIGIT))
    raise Unsupported(f"category {cat}")


def _in(items, icase):
    neg = False
    parts = []
    for op, av in items:
        if op == sc.NEGATE:
            neg = True
        elif op == sc.LITERAL:
            parts.append(_char_re(av, icase))
        elif op == sc.RANGE:
            lo, hi = av
            parts.append(z3.Range(chr(lo), chr(hi)))
            if icase:
                for c in range(lo, hi + 1):
                    ch = chr(c)
                    if ch.lower() != ch.upper():
                        parts.append(z3.Re(ch.swapcase()))
        elif op == sc.CATEGORY:
            parts.append(_category(av))
        else:
            raise Unsupported(f"IN item {op}")
    r = parts[0] if len(parts) == 1 else z3.Union(*parts)
    return z3.Intersect(ANYCHAR, z3.Complement(r)) if neg else r


def translate(seq, icase=False):
    """sre parse tree -> (z3 regex, ends_with_word_boundary)"""
    out = []
    boundary_at_end = False
    items = list(seq)
    for idx, (op, av) in enumerate(items):
        if op == sc.LITERAL:
            out.append(_char_re(av, icase))
        elif op == sc.NOT_LITERAL:
            out.append(z3.Intersect(ANYCHAR, z3.Complement(_char_re(av, icase))))
        elif op == sc.ANY:
            out.append(ANYCHAR)
        elif op == sc.IN:
            out.append(_in(av, icase))
        elif op == sc.BRANCH:
            alts = [translate(a, icase) for a in av[1]]
            if any(b for _, b in alts):
                raise Unsupported("\\b inside an alternative")
            out.append(z3.Union(*[a for a, _ in alts]) if len(alts) > 1 else alts[0][0])
        elif op == sc.SUBPATTERN:
            group, add_flags, del_flags, sub = av
            ic = (icase or bool(add_flags & re.IGNORECASE)) and not bool(del_flags & re.IGNORECASE)
            r, b = translate(sub, ic)
            if b:
                raise Unsupported("\\b inside a group")
            out.append(r)
        elif op in (sc.MAX_REPEAT, sc.MIN_REPEAT):
            lo, hi, sub = av
            r, b = translate(sub, icase)
            if b:
                raise Unsupported("\\b inside a repeat")
            if hi == sc.MAXREPEAT:
                out.append(z3.Star(r) if lo == 0 else (z3.Plus(r) if lo == 1 else z3.Concat(z3.Loop(r, lo, lo), z3.Star(r))))
            else:
                out.append(z3.Loop(r, lo, hi) if (lo, hi) != (0, 1) else z3.Option(r))
        elif op == sc.AT:
            if av == sc.AT_BOUNDARY and idx == len(items) - 1:
                boundary_at_end = True
            else:
                raise Unsupported(f"anchor {av} not at the end")
        else:
            raise Unsupported(f"op {op}")
    if not out:
        return EMPTY, boundary_at_end
    return (out[0] if len(out) == 1 else z3.Concat(*out)), boundary_at_end


def rule_regex(pattern):
    return translate(sp.parse(pattern))


def prefix_language(rx, boundary):
    """strings that the rule matches at position 0 (some prefix is in L(rule)); a trailing \\b
    (the rule's last character is a word character in every rule that uses it) requires the rest
    to be empty or to start with a non-word character."""
    if boundary:
        nonword = z3.Intersect(ANYCHAR, z3.Complement(WORD))
        return z3.Concat(rx, z3.Union(EMPTY, z3.Concat(nonword, FULL)))
    return z3.Concat(rx, FULL)


class Q:
    """incremental solver wrapper recording every query"""

    def __init__(self):
        self.s = z3.Solver()
        self.s.set("timeout", 60000)
        self.log = []

    def check(self, name, *constraints, model_of=None):
        t0 = time.time()
        self.s.push()
        for c in constraints:
            self.s.add(c)
        r = str(self.s.check())
        model = None
        if r == "sat" and model_of is not None:
            m = self.s.model()
            model = {str(v): m.eval(v, model_completion=True).as_string() for v in model_of}
        self.s.pop()
        self.log.append({"query": name, "answer": r, "model": model, "solver_s": round(time.time() - t0, 3)})
        return r, model


def printable(var, lo=0x20, hi=0x7e):
    return z3.InRe(var, z3.Star(z3.Range(chr(lo), chr(hi))))
