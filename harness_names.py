"""names shown in obligation ids (kept in step with harness/pipe.py SEQ_NAMES; props modules do not import harness modules)"""
SEQ_NAMES_DOC = ["q", "Q", '"q"', "s.q", "S.Q", 's."Q"', "[q]", "s.[q]", "qq"]
