"""CH-misc — C16 (silent / raising, output_mode validation) and C19 (file / dump / CLI plumbing)."""
import os
from copy import deepcopy

import simple_ddl_parser.ddl_parser as dp
import simple_ddl_parser.parser as pm
from harness._common import PARSER, token
from simple_ddl_parser import cli as cli_mod
from simple_ddl_parser.ddl_parser import DDLParserError
from simple_ddl_parser.exception import SimpleDDLParserException
from simple_ddl_parser.output.dialects import dialect_by_name

VALID_MODES = ["sql", "redshift", "spark_sql", "mysql", "bigquery", "mssql", "databricks", "sqlite", "vertics", "ibm_db2",
               "postgres", "oracle", "hql", "snowflake", "athena"]


# ------------------------------------------------------------------ C16 ----------------------
def c_perror(silent: bool, has_token: bool) -> bool:
    """
    The syntax-error callback raises DDLParserError exactly when silent is False - for any
    offending token, and also when the error is only detected at the end of the input (p None).

    post: _
    """
    PARSER.silent = silent
    p = token("x", "ID") if has_token else None
    try:
        PARSER.p_error(p)
    except DDLParserError as e:
        return (not silent) and isinstance(e, SimpleDDLParserException)
    finally:
        PARSER.silent = True
    return silent


def api_c_perror(silent, has_token):
    from simple_ddl_parser import DDLParser
    ddls = ["CREATE TABLE t (a int) PARTITION BY;", "ALTER TABLE a ADD;", "CREATE SEQUENCE;"] if not has_token else \
        ["SELECT a FROM b;", "CREATE PABLE t (a int);", "CREATE VIEW v AS SELECT 1;"]
    for ddl in ddls:
        try:
            r = DDLParser(ddl, silent=silent).run()
            raised = False
        except DDLParserError:
            raised, r = True, None
        if raised == silent:
            return {"ddl": ddl, "silent": silent, "raised": raised, "result": r, "reproduced": True}
    return {"reproduced": False}


N_STMTS = [[], [{"schema": None, "sequence_name": "q", "increment": 1}],
           [{"schema": None, "table_name": "t", "columns": [], "checks": []}]]


def c_mode(m: str, k: int, group: bool) -> bool:
    """
    run(output_mode=m) with m not among the 15 names raises SimpleDDLParserException naming every
    valid mode - whatever the script yields (nothing, a sequence only, a table).

    pre: len(m) <= 4
    pre: m not in VALID_MODES
    pre: 0 <= k <= 2
    post: _
    """
    PARSER.parse_data = lambda: deepcopy(N_STMTS[k])
    try:
        PARSER.run(output_mode=m, group_by_type=group)
    except SimpleDDLParserException as e:
        return all(v in str(e) for v in VALID_MODES)
    finally:
        del PARSER.parse_data
    return False


def api_c_mode(m, k, group):
    from simple_ddl_parser import DDLParser
    ddl = ["GO", "CREATE SEQUENCE q INCREMENT 1;", "CREATE TABLE t (a int);"][k]
    try:
        r = DDLParser(ddl).run(output_mode=m or "nosuchmode", group_by_type=group)
    except SimpleDDLParserException as e:
        return {"reproduced": not all(v in str(e) for v in VALID_MODES), "message": str(e)}
    return {"ddl": ddl, "output_mode": m, "got": r, "expected": "SimpleDDLParserException", "reproduced": True}


def _near(i: int, style: int, pos: int):
    """a spelling close to valid mode name #i that is not itself a valid name"""
    n = VALID_MODES[i]
    if style == 0:
        return n.upper()
    if style == 1:
        return n.capitalize()
    if style == 2:
        p = pos % len(n)
        return n[:p] + n[p].upper() + n[p + 1:]
    if style == 3:
        return n + " "
    if style == 4:
        return " " + n
    if style == 5:
        return n[:-1]
    if style == 6:
        return n + "s"
    return None


def c_mode_near(i: int, style: int, pos: int, k: int, group: bool) -> bool:
    """
    A near-miss of a valid mode name - other letter case (upper, Capitalized, one letter at a
    symbolic position), a blank before / after, a missing or an extra last letter - and None are
    unknown modes: run() raises SimpleDDLParserException naming every valid mode, whatever the
    script yields.

    pre: 0 <= i < 15 and 0 <= style <= 7 and 0 <= pos < 10
    pre: 0 <= k <= 2
    pre: _near(i, style, pos) not in VALID_MODES
    post: _
    """
    m = _near(i, style, pos)
    PARSER.parse_data = lambda: deepcopy(N_STMTS[k])
    try:
        PARSER.run(output_mode=m, group_by_type=group)
    except SimpleDDLParserException as e:
        return all(v in str(e) for v in VALID_MODES)
    finally:
        del PARSER.parse_data
    return False


def api_c_mode_near(i, style, pos, k, group):
    from simple_ddl_parser import DDLParser
    m = _near(i, style, pos)
    ddl = ["GO", "CREATE SEQUENCE q INCREMENT 1;", "CREATE TABLE t (a int);"][k]
    try:
        r = DDLParser(ddl).run(output_mode=m, group_by_type=group)
    except SimpleDDLParserException as e:
        return {"reproduced": not all(v in str(e) for v in VALID_MODES), "message": str(e), "output_mode": m}
    except Exception as e:
        return {"ddl": ddl, "output_mode": m, "raised": f"{type(e).__name__}: {e}", "expected": "SimpleDDLParserException", "reproduced": True}
    return {"ddl": ddl, "output_mode": m, "got": r, "expected": "SimpleDDLParserException", "reproduced": True}


def c_valid_mode(i: int, k: int) -> bool:
    """
    Every documented mode name is accepted (no exception) whatever the script yields.

    pre: 0 <= i < 15
    pre: 0 <= k <= 2
    post: _
    """
    PARSER.parse_data = lambda: deepcopy(N_STMTS[k])
    try:
        r = PARSER.run(output_mode=VALID_MODES[i])
    finally:
        del PARSER.parse_data
    return isinstance(r, list) and len(r) == len(N_STMTS[k])


# ------------------------------------------------------------------ C19 ----------------------
class _FakeFile:
    def __init__(self, content):
        self.content = content

    def read(self):
        return self.content

    def __enter__(self):
        return self

    def __exit__(self, *a):
        return False


def c_plumb(content: str, path: str, encoding: str, norm: bool, silent: bool, mode_i: int, group: bool) -> bool:
    """
    parse_from_file hands DDLParser exactly the decoded file content and the given settings,
    and run() the given arguments plus file_path; its return value is run()'s.

    pre: len(content) <= 3 and len(path) <= 4 and len(encoding) <= 3
    pre: 0 <= mode_i < 15
    post: _
    """
    seen = {}

    def fake_open(p, mode="r", encoding=None, **kw):
        seen["open"] = (p, mode, encoding)
        seen["open_kw"] = kw
        return _FakeFile(content)

    settings = {"normalize_names": norm, "silent": silent}

    class Recorder:
        def __init__(self, text, **kw):
            seen["text"] = text
            seen["init"] = kw

        def run(self, **kw):
            seen["run"] = kw
            return ["RESULT"]

    old_open, old_cls = dp.__dict__.get("open"), dp.DDLParser
    dp.open, dp.DDLParser = fake_open, Recorder
    try:
        out = dp.parse_from_file(path, encoding, settings, output_mode=VALID_MODES[mode_i], group_by_type=group)
    finally:
        dp.DDLParser = old_cls
        if old_open is None:
            del dp.open
        else:
            dp.open = old_open
    # text mode with universal newlines (CRLF files read like LF files), caller's settings dict untouched
    return (out == ["RESULT"] and seen["open"] == (path, "r", encoding) and seen["open_kw"] == {} and seen["text"] == content
            and settings == {"normalize_names": norm, "silent": silent}
            and seen["init"] == {"normalize_names": norm, "silent": silent}
            and seen["run"] == {"file_path": path, "output_mode": VALID_MODES[mode_i], "group_by_type": group})


def api_c_plumb(content, path, encoding, norm, silent, mode_i, group):
    import tempfile
    from simple_ddl_parser import DDLParser, parse_from_file
    text = "CREATE TABLE t (\r\na int,\r\nb varchar(3));\r\n-- c" + content + "\r\nCREATE SEQUENCE q START 1;" + content
    d = tempfile.mkdtemp()
    fp = os.path.join(d, "in.sql")
    with open(fp, "w", encoding="utf-8", newline="") as f:
        f.write(text)
    with open(fp, "r", encoding="utf-8") as f:
        decoded = f.read()
    settings = {"normalize_names": norm, "silent": False}
    try:
        a = parse_from_file(fp, "utf-8", settings, output_mode=VALID_MODES[mode_i], group_by_type=group)
        a2 = parse_from_file(fp, "utf-8", settings, output_mode=VALID_MODES[mode_i], group_by_type=group)
        if a2 != a or settings != {"normalize_names": norm, "silent": False}:
            a = ["second call with the same settings dict differs", a, a2, settings]
    except Exception as e:
        a = f"{type(e).__name__}: {e}"
    try:
        b = DDLParser(decoded, normalize_names=norm, silent=False).run(output_mode=VALID_MODES[mode_i], group_by_type=group)
    except Exception as e:
        b = f"{type(e).__name__}: {e}"
    import shutil
    shutil.rmtree(d, ignore_errors=True)
    return {"file_text": text, "from_file": a, "in_memory": b, "reproduced": a != b}


def c_dump(n: int, has_path: bool, base: str, ext: str, dump: bool, group: bool) -> bool:
    """
    run(dump=True, file_path=p) writes exactly one file named after p's base name into dump_path,
    holding exactly the returned result - also when the result is empty; dump=False writes nothing.

    pre: 0 <= n <= 2
    pre: has_path
    pre: 1 <= len(base) <= 2 and "." not in base and "/" not in base
    pre: len(ext) <= 3 and "." not in ext and "/" not in ext
    post: _
    """
    calls = []

    def fake_dump(name, dump_path, data):
        calls.append((name, dump_path, data))

    stmts = [{"schema": None, "table_name": "t", "columns": [], "checks": []}, {"schema": None, "sequence_name": "q", "increment": 1}][:n]
    old = pm.dump_data_to_file
    pm.dump_data_to_file = fake_dump
    PARSER.parse_data = lambda: deepcopy(stmts)
    try:
        path = ("dir/" + base + "." + ext) if has_path else None
        out = PARSER.run(dump=dump, dump_path="target", file_path=path, group_by_type=group)
    finally:
        del PARSER.parse_data
        pm.dump_data_to_file = old
    if not dump:
        return calls == []
    if has_path:
        return len(calls) == 1 and calls[0][0] == base and calls[0][1] == "target" and calls[0][2] is out
    if group:
        return True  # per-table dumping of a grouped result is outside the claim
    tables = [e for e in out if "table_name" in e]
    return [c[0] for c in calls] == [t["table_name"] for t in tables] and all(c[1] == "target" for c in calls)


def api_c_dump(n, has_path, base, ext, dump, group):
    import json
    import shutil
    import tempfile
    from simple_ddl_parser import parse_from_file
    d = tempfile.mkdtemp()
    fp = os.path.join(d, "inp.sql")
    text = ["GO\n", "CREATE TABLE t (a int);\n", "CREATE TABLE t (a int);\nCREATE SEQUENCE q INCREMENT 1;\n"][n]
    open(fp, "w").write(text)
    target = os.path.join(d, "out")
    res = parse_from_file(fp, dump=dump, dump_path=target, group_by_type=group)
    f = os.path.join(target, "inp_schema.json")
    exists = os.path.exists(f)
    ok = (exists and json.load(open(f)) == json.loads(json.dumps(res))) if dump else not os.path.exists(target)
    shutil.rmtree(d, ignore_errors=True)
    return {"file_text": text, "dump": dump, "result": res, "dump_file_exists": exists, "reproduced": not ok}


def c_ext(name: str) -> bool:
    """
    Directory mode picks exactly the files whose last extension is sql / ddl / hql / bql.

    pre: 1 <= len(name) <= 7
    pre: not name.endswith(".")
    post: _
    """
    parts = name.split(".")
    want = len(parts) >= 2 and parts[-1] in ("sql", "ddl", "hql", "bql")
    return cli_mod.correct_extension(name) == want


class _Args:
    pass


def c_cli(path: str, target: str, no_dump: bool, v: bool, mode_i: int) -> bool:
    """
    run_for_file forwards the command-line settings: dump = not --no-dump, dump_path = -t,
    output_mode = -o, file path unchanged.  The arguments object comes from the command's own
    argparse parser (so options added to the command keep their defaults); settings the
    property does not mention may be forwarded too.

    pre: 1 <= len(path) <= 3 and 1 <= len(target) <= 3
    pre: not path.startswith("-") and not target.startswith("-")
    pre: 0 <= mode_i < 15
    post: _
    """
    seen = {}

    def fake_parse(fp, *pos, **kw):
        seen["fp"], seen["pos"], seen["kw"] = fp, pos, kw
        return []

    argv = [path, "-t", target, "-o", VALID_MODES[mode_i]] + (["--no-dump"] if no_dump else []) + (["-v"] if v else [])
    a = cli_mod.cli().parse_args(argv)
    old, oldpp = cli_mod.parse_from_file, cli_mod.pprint.pprint
    cli_mod.parse_from_file = fake_parse
    cli_mod.pprint.pprint = lambda *x, **k: None
    try:
        cli_mod.run_for_file(a)
    finally:
        cli_mod.parse_from_file = old
        cli_mod.pprint.pprint = oldpp
    want = {"dump": not no_dump, "dump_path": target, "output_mode": VALID_MODES[mode_i]}
    return seen.get("fp") == path and seen.get("pos") == () and all(k in seen["kw"] and seen["kw"][k] == x for k, x in want.items())


MAIN_NAMES = ["a.sql", "b", "c.d.hql", "e.ddl", "f.txt", ".bql", "g.sql.bak"]


def c_main(i1: int, i2: int, i3: int, is_file: bool) -> bool:
    """
    cli.main: a file path is parsed once; a directory is walked and every entry with a DDL
    extension is parsed exactly once, with its own path <dir>/<entry>.

    pre: 0 <= i1 < 7 and 0 <= i2 < 7 and 0 <= i3 < 7
    post: _
    """
    n1, n2, n3 = MAIN_NAMES[i1], MAIN_NAMES[i2], MAIN_NAMES[i3]
    calls = []
    a = _Args()
    a.ddl_file_path, a.target, a.no_dump, a.v, a.output_mode = "d", "t", True, False, "sql"

    class FakeCli:
        def parse_args(self):
            return a

    old = (cli_mod.cli, cli_mod.run_for_file, cli_mod.os.path.exists, cli_mod.os.path.isfile, cli_mod.os.listdir)
    cli_mod.cli = lambda: FakeCli()
    cli_mod.run_for_file = lambda args: calls.append(args.ddl_file_path)
    cli_mod.os.path.exists = lambda p: True
    cli_mod.os.path.isfile = lambda p: is_file
    cli_mod.os.listdir = lambda p: [n1, n2, n3]
    try:
        cli_mod.main()
    finally:
        cli_mod.cli, cli_mod.run_for_file, cli_mod.os.path.exists, cli_mod.os.path.isfile, cli_mod.os.listdir = old
    if is_file:
        return calls == ["d"]
    want = ["d/" + n for n in (n1, n2, n3) if cli_mod.correct_extension(n)]
    return calls == want


def api_c_main(i1, i2, i3, is_file):
    import shutil
    import sys
    import tempfile
    d = tempfile.mkdtemp()
    src = os.path.join(d, "src")
    os.makedirs(src)
    for i, nm in enumerate(["a.sql", "b.ddl", "c.hql"]):
        open(os.path.join(src, nm), "w").write(f"CREATE TABLE t{i} (a int);\n")
    target = os.path.join(d, "out")
    argv = sys.argv
    sys.argv = ["sdp", src, "-t", target]
    try:
        cli_mod.main()
        err = None
    except BaseException as e:
        err = f"{type(e).__name__}: {e}"
    finally:
        sys.argv = argv
    made = sorted(os.listdir(target)) if os.path.isdir(target) else []
    shutil.rmtree(d, ignore_errors=True)
    return {"dumped": made, "error": err, "reproduced": made != ["a_schema.json", "b_schema.json", "c_schema.json"] or err is not None}


# ---- the sdp command on a real (temporary) directory tree: symbolic are the choices, not the bytes ----------
CLI_NAMES = ["a.sql", "UserOrders.sql", "x_1.hql", "B2.ddl"]
CLI_MODES = ["sql", "hql", "mysql"]
CLI_DDL = "CREATE TABLE t (a int, b varchar(10)) STORED AS PARQUET LOCATION 's3://x';\n"
CLI_DIR = int(os.environ.get("VF_CLI_DIR", 0))
CLI_NODUMP = int(os.environ.get("VF_CLI_NODUMP", 0))


def _tree(root):
    out = []
    for d, dirs, files in os.walk(root):
        for n in dirs + files:
            out.append(os.path.relpath(os.path.join(d, n), root))
    return sorted(out)


def _cli_fs_case(ni, m1, m2, default_target, is_dir, no_dump):
    """runs the real cli.main (argparse, os, parse_from_file, the whole parser, dump code) once or twice on a fresh
    temporary tree; returns (ok, detail)"""
    import json
    import shutil
    import sys
    import tempfile
    from simple_ddl_parser import parse_from_file
    root = tempfile.mkdtemp(prefix="vfcli-")
    cwd, argv, oldpp = os.getcwd(), sys.argv, cli_mod.pprint.pprint
    cli_mod.pprint.pprint = lambda *x, **k: None
    detail = {}
    try:
        work, src = os.path.join(root, "work"), os.path.join(root, "src")
        os.makedirs(work)
        os.makedirs(src)
        names = [CLI_NAMES[ni]] if not is_dir else [CLI_NAMES[ni], CLI_NAMES[(ni + 1) % len(CLI_NAMES)], "notes.txt"]
        for n in names:
            with open(os.path.join(src, n), "w") as f:
                f.write(CLI_DDL)
        os.chdir(work)
        target = os.path.join(work, "schemas") if default_target else os.path.join(root, "out")
        path = src if is_dir else os.path.join(src, names[0])
        before = _tree(root)
        modes = [CLI_MODES[m1]] + ([CLI_MODES[m2]] if m2 < len(CLI_MODES) else [])
        for m in modes:
            sys.argv = ["sdp", path, "-o", m] + ([] if default_target else ["-t", target]) + (["--no-dump"] if no_dump else [])
            try:
                cli_mod.main()
            except SystemExit:
                pass
        created = [q for q in _tree(root) if q not in before]
        detail["argv_modes"], detail["created"] = modes, created
        if no_dump:
            return created == [], detail
        ddl_names = [n for n in names if n != "notes.txt"]
        trel = os.path.relpath(target, root)
        want = sorted([trel] + [os.path.join(trel, n.split(".")[0] + "_schema.json") for n in ddl_names])
        detail["expected_created"] = want
        ok = created == want
        for n in ddl_names:
            fp = os.path.join(target, n.split(".")[0] + "_schema.json")
            if not os.path.isfile(fp):
                ok = False
                continue
            with open(fp) as f:
                got = json.load(f)
            exp = json.loads(json.dumps(parse_from_file(os.path.join(src, n), output_mode=modes[-1])))
            if got != exp:
                ok = False
                detail["content_mismatch"] = {"file": fp[len(root):], "dumped": got, "api_result_for_last_mode": exp}
        return ok, detail
    finally:
        os.chdir(cwd)
        sys.argv = argv
        cli_mod.pprint.pprint = oldpp
        shutil.rmtree(root, ignore_errors=True)


def c_cli_fs(ni: int, m1: int, m2: int, default_target: bool) -> bool:
    """
    The sdp command (real cli.main on a fresh temporary tree; file or directory mode and --no-dump
    fixed per process): with --no-dump nothing at all is created - neither in the working
    directory nor in the target; otherwise exactly `<target>/<base name>_schema.json` per DDL
    file (base name verbatim, letter case kept), whose JSON content equals what
    parse_from_file(file, output_mode=<-o of the last invocation>) returns - also when the
    command is run a second time on the same file and target with another -o.

    pre: 0 <= ni < len(CLI_NAMES)
    pre: 0 <= m1 < len(CLI_MODES)
    pre: 0 <= m2 <= len(CLI_MODES)
    post: _
    """
    from crosshair.auditwall import opened_auditwall
    from crosshair.tracers import NoTracing
    from crosshair.core import realize
    ni, m1, m2, default_target = realize(ni), realize(m1), realize(m2), realize(default_target)  # (everything below is I/O)
    # CrossHair blocks file writes by default; every write of this case goes to a fresh temporary directory that is
    # removed afterwards, so the wall is opened for its duration
    with NoTracing(), opened_auditwall():
        return _cli_fs_case(ni, m1, m2, default_target, bool(CLI_DIR), bool(CLI_NODUMP))[0]


def api_c_cli_fs(ni, m1, m2, default_target):
    ok, detail = _cli_fs_case(ni, m1, m2, default_target, bool(CLI_DIR), bool(CLI_NODUMP))
    detail.update({"file_names": CLI_NAMES, "directory_mode": bool(CLI_DIR), "no_dump": bool(CLI_NODUMP), "reproduced": not ok})
    return detail


def _nofiles_case(mi, group, json_dump, via_file):
    import shutil
    import tempfile
    from simple_ddl_parser import DDLParser, parse_from_file
    root = tempfile.mkdtemp(prefix="vfnf-")
    cwd = os.getcwd()
    try:
        work, src = os.path.join(root, "work"), os.path.join(root, "src")
        os.makedirs(work)
        os.makedirs(src)
        fp = os.path.join(src, "In.sql")
        with open(fp, "w") as f:
            f.write(CLI_DDL)
        os.chdir(work)
        before = _tree(root)
        kw = {"output_mode": VALID_MODES[mi], "group_by_type": group, "json_dump": json_dump}
        settings = {"silent": True}
        if via_file:
            parse_from_file(fp, parser_settings=settings, **kw)
        else:
            DDLParser(CLI_DDL, **settings).run(**kw)
        created = [q for q in _tree(root) if q not in before]
        return created == [] and settings == {"silent": True} and kw == {"output_mode": VALID_MODES[mi], "group_by_type": group, "json_dump": json_dump}, {"created": created}
    finally:
        os.chdir(cwd)
        shutil.rmtree(root, ignore_errors=True)


def c_nofiles(mi: int, group: bool, json_dump: bool, via_file: bool) -> bool:
    """
    C14: without dump=True, run() / parse_from_file() in any output mode, flat or grouped, with
    or without json_dump, create nothing in the working directory, next to the input file or in
    the default dump directory, and leave their argument dicts unchanged (real file system, fresh
    temporary tree; native execution, the solver chooses the case).

    pre: 0 <= mi < 15
    post: _
    """
    from crosshair.auditwall import opened_auditwall
    from crosshair.core import realize
    from crosshair.tracers import NoTracing
    mi, group, json_dump, via_file = realize(mi), realize(group), realize(json_dump), realize(via_file)
    with NoTracing(), opened_auditwall():
        return _nofiles_case(mi, group, json_dump, via_file)[0]


def api_c_nofiles(mi, group, json_dump, via_file):
    ok, detail = _nofiles_case(mi, group, json_dump, via_file)
    detail.update({"output_mode": VALID_MODES[mi], "group_by_type": group, "json_dump": json_dump, "via_parse_from_file": via_file, "reproduced": not ok})
    return detail


DUMP_NAMES = ["x", "a.b", "in put", "UPPER_lower"]
DUMP_DATA = [[{"table_name": "t", "columns": []}], {"tables": [{"table_name": "t"}], "types": []}, {"table_name": "t", "columns": []}, []]


def _dump_file_case(kind, nm, dir_exists):
    import json
    import shutil
    import tempfile
    import simple_ddl_parser.output.core as core
    root = tempfile.mkdtemp(prefix="vfdump-")
    try:
        target = os.path.join(root, "out")
        if dir_exists:
            os.makedirs(target)
        core.dump_data_to_file(DUMP_NAMES[nm], target, DUMP_DATA[kind])
        made = _tree(root)
        want = sorted(["out", os.path.join("out", DUMP_NAMES[nm] + "_schema.json")])
        ok = made == want
        if ok:
            with open(os.path.join(target, DUMP_NAMES[nm] + "_schema.json")) as f:
                ok = json.load(f) == DUMP_DATA[kind]
        return ok, {"created": made, "expected": want}
    finally:
        shutil.rmtree(root, ignore_errors=True)


def c_dump_file(kind: int, nm: int, dir_exists: bool) -> bool:
    """
    dump_data_to_file writes exactly the JSON encoding of what it is given - a list (flat
    result), a dict (group_by_type result), a single table dict or an empty list - into
    <dir>/<name>_schema.json (name verbatim), creating the directory when needed, and nothing else
    (real file system: fresh temporary directory, native execution; the solver chooses the case).

    pre: 0 <= kind < len(DUMP_DATA)
    pre: 0 <= nm < len(DUMP_NAMES)
    post: _
    """
    from crosshair.auditwall import opened_auditwall
    from crosshair.core import realize
    from crosshair.tracers import NoTracing
    kind, nm, dir_exists = realize(kind), realize(nm), realize(dir_exists)
    with NoTracing(), opened_auditwall():
        return _dump_file_case(kind, nm, dir_exists)[0]


def api_c_dump_file(kind, nm, dir_exists):
    ok, detail = _dump_file_case(kind, nm, dir_exists)
    detail.update({"name": DUMP_NAMES[nm], "data": DUMP_DATA[kind], "target_exists_before": dir_exists, "reproduced": not ok})
    return detail
