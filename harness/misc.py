"""CH-misc — C16 (silent / raising, output_mode validation) and C19 (file / dump / CLI plumbing)."""
import os
from copy import deepcopy

import simple_ddl_parser.ddl_parser as dp
import simple_ddl_parser.parser as pm
from harness._common import PARSER, token
from simple_ddl_parser import cli as cli_mod
from simple_ddl_parser.ddl_parser import DDLParserError
from simple_ddl_parser.exception import SimpleDDLParserException
from simple_ddl_parser.output.dialects import dialect_by_name

VALID_MODES = ["sql", "redshift", "spark_sql", "mysql", "bigquery", "mssql", "databricks", "sqlite", "vertics", "ibm_db2",
               "postgres", "oracle", "hql", "snowflake", "athena"]


# ------------------------------------------------------------------ C16 ----------------------
def c_perror(silent: bool, has_token: bool) -> bool:
    """
    The syntax-error callback raises DDLParserError exactly when silent is False - for any
    offending token, and also when the error is only detected at the end of the input (p None).

    post: _
    """
    PARSER.silent = silent
    p = token("x", "ID") if has_token else None
    try:
        PARSER.p_error(p)
    except DDLParserError as e:
        return (not silent) and isinstance(e, SimpleDDLParserException)
    finally:
        PARSER.silent = True
    return silent


def api_c_perror(silent, has_token):
    from simple_ddl_parser import DDLParser
    ddls = ["CREATE TABLE t (a int) PARTITION BY;", "ALTER TABLE a ADD;", "CREATE SEQUENCE;"] if not has_token else \
        ["SELECT a FROM b;", "CREATE PABLE t (a int);", "CREATE VIEW v AS SELECT 1;"]
    for ddl in ddls:
        try:
            r = DDLParser(ddl, silent=silent).run()
            raised = False
        except DDLParserError:
            raised, r = True, None
        if raised == silent:
            return {"ddl": ddl, "silent": silent, "raised": raised, "result": r, "reproduced": True}
    return {"reproduced": False}


N_STMTS = [[], [{"schema": None, "sequence_name": "q", "increment": 1}],
           [{"schema": None, "table_name": "t", "columns": [], "checks": []}]]


def c_mode(m: str, k: int, group: bool) -> bool:
    """
    run(output_mode=m) with m not among the 15 names raises SimpleDDLParserException naming every
    valid mode - whatever the script yields (nothing, a sequence only, a table).

    pre: len(m) <= 4
    pre: m not in VALID_MODES
    pre: 0 <= k <= 2
    post: _
    """
    PARSER.parse_data = lambda: deepcopy(N_STMTS[k])
    try:
        PARSER.run(output_mode=m, group_by_type=group)
    except SimpleDDLParserException as e:
        return all(v in str(e) for v in VALID_MODES)
    finally:
        del PARSER.parse_data
    return False


def api_c_mode(m, k, group):
    from simple_ddl_parser import DDLParser
    ddl = ["GO", "CREATE SEQUENCE q INCREMENT 1;", "CREATE TABLE t (a int);"][k]
    try:
        r = DDLParser(ddl).run(output_mode=m or "nosuchmode", group_by_type=group)
    except SimpleDDLParserException as e:
        return {"reproduced": not all(v in str(e) for v in VALID_MODES), "message": str(e)}
    return {"ddl": ddl, "output_mode": m, "got": r, "expected": "SimpleDDLParserException", "reproduced": True}


def c_valid_mode(i: int, k: int) -> bool:
    """
    Every documented mode name is accepted (no exception) whatever the script yields.

    pre: 0 <= i < 15
    pre: 0 <= k <= 2
    post: _
    """
    PARSER.parse_data = lambda: deepcopy(N_STMTS[k])
    try:
        r = PARSER.run(output_mode=VALID_MODES[i])
    finally:
        del PARSER.parse_data
    return isinstance(r, list) and len(r) == len(N_STMTS[k])


# ------------------------------------------------------------------ C19 ----------------------
class _FakeFile:
    def __init__(self, content):
        self.content = content

    def read(self):
        return self.content

    def __enter__(self):
        return self

    def __exit__(self, *a):
        return False


def c_plumb(content: str, path: str, encoding: str, norm: bool, silent: bool, mode_i: int, group: bool) -> bool:
    """
    parse_from_file hands DDLParser exactly the decoded file content and the given settings,
    and run() the given arguments plus file_path; its return value is run()'s.

    pre: len(content) <= 3 and len(path) <= 4 and len(encoding) <= 3
    pre: 0 <= mode_i < 15
    post: _
    """
    seen = {}

    def fake_open(p, mode="r", encoding=None):
        seen["open"] = (p, mode, encoding)
        return _FakeFile(content)

    class Recorder:
        def __init__(self, text, **kw):
            seen["text"] = text
            seen["init"] = kw

        def run(self, **kw):
            seen["run"] = kw
            return ["RESULT"]

    old_open, old_cls = dp.__dict__.get("open"), dp.DDLParser
    dp.open, dp.DDLParser = fake_open, Recorder
    try:
        out = dp.parse_from_file(path, encoding, {"normalize_names": norm, "silent": silent},
                                 output_mode=VALID_MODES[mode_i], group_by_type=group)
    finally:
        dp.DDLParser = old_cls
        if old_open is None:
            del dp.open
        else:
            dp.open = old_open
    return (out == ["RESULT"] and seen["open"] == (path, "r", encoding) and seen["text"] == content
            and seen["init"] == {"normalize_names": norm, "silent": silent}
            and seen["run"] == {"file_path": path, "output_mode": VALID_MODES[mode_i], "group_by_type": group})


def api_c_plumb(content, path, encoding, norm, silent, mode_i, group):
    import tempfile
    from simple_ddl_parser import DDLParser, parse_from_file
    text = "CREATE TABLE t (a int, b varchar(3));\n-- c" + content + "\nCREATE SEQUENCE q START 1;" + content
    d = tempfile.mkdtemp()
    fp = os.path.join(d, "in.sql")
    with open(fp, "w", encoding="utf-8", newline="") as f:
        f.write(text)
    with open(fp, "r", encoding="utf-8") as f:
        decoded = f.read()
    try:
        a = parse_from_file(fp, "utf-8", {"normalize_names": norm, "silent": True}, output_mode=VALID_MODES[mode_i], group_by_type=group)
    except Exception as e:
        a = f"{type(e).__name__}: {e}"
    try:
        b = DDLParser(decoded, normalize_names=norm, silent=True).run(output_mode=VALID_MODES[mode_i], group_by_type=group)
    except Exception as e:
        b = f"{type(e).__name__}: {e}"
    import shutil
    shutil.rmtree(d, ignore_errors=True)
    return {"file_text": text, "from_file": a, "in_memory": b, "reproduced": a != b}


def c_dump(n: int, has_path: bool, base: str, ext: str, dump: bool, group: bool) -> bool:
    """
    run(dump=True, file_path=p) writes exactly one file named after p's base name into dump_path,
    holding exactly the returned result - also when the result is empty; dump=False writes nothing.

    pre: 0 <= n <= 2
    pre: has_path
    pre: 1 <= len(base) <= 2 and "." not in base and "/" not in base
    pre: len(ext) <= 3 and "." not in ext and "/" not in ext
    post: _
    """
    calls = []

    def fake_dump(name, dump_path, data):
        calls.append((name, dump_path, data))

    stmts = [{"schema": None, "table_name": "t", "columns": [], "checks": []}, {"schema": None, "sequence_name": "q", "increment": 1}][:n]
    old = pm.dump_data_to_file
    pm.dump_data_to_file = fake_dump
    PARSER.parse_data = lambda: deepcopy(stmts)
    try:
        path = ("dir/" + base + "." + ext) if has_path else None
        out = PARSER.run(dump=dump, dump_path="target", file_path=path, group_by_type=group)
    finally:
        del PARSER.parse_data
        pm.dump_data_to_file = old
    if not dump:
        return calls == []
    if has_path:
        return len(calls) == 1 and calls[0][0] == base and calls[0][1] == "target" and calls[0][2] is out
    if group:
        return True  # per-table dumping of a grouped result is outside the claim
    tables = [e for e in out if "table_name" in e]
    return [c[0] for c in calls] == [t["table_name"] for t in tables] and all(c[1] == "target" for c in calls)


def api_c_dump(n, has_path, base, ext, dump, group):
    import json
    import shutil
    import tempfile
    from simple_ddl_parser import parse_from_file
    d = tempfile.mkdtemp()
    fp = os.path.join(d, "inp.sql")
    text = ["GO\n", "CREATE TABLE t (a int);\n", "CREATE TABLE t (a int);\nCREATE SEQUENCE q INCREMENT 1;\n"][n]
    open(fp, "w").write(text)
    target = os.path.join(d, "out")
    res = parse_from_file(fp, dump=dump, dump_path=target, group_by_type=group)
    f = os.path.join(target, "inp_schema.json")
    exists = os.path.exists(f)
    ok = (exists and json.load(open(f)) == json.loads(json.dumps(res))) if dump else not os.path.exists(target)
    shutil.rmtree(d, ignore_errors=True)
    return {"file_text": text, "dump": dump, "result": res, "dump_file_exists": exists, "reproduced": not ok}


def c_ext(name: str) -> bool:
    """
    Directory mode picks exactly the files whose last extension is sql / ddl / hql / bql.

    pre: 1 <= len(name) <= 7
    pre: not name.endswith(".")
    post: _
    """
    parts = name.split(".")
    want = len(parts) >= 2 and parts[-1] in ("sql", "ddl", "hql", "bql")
    return cli_mod.correct_extension(name) == want


class _Args:
    pass


def c_cli(path: str, target: str, no_dump: bool, v: bool, mode_i: int) -> bool:
    """
    run_for_file forwards the command-line settings: dump = not --no-dump, dump_path = -t,
    output_mode = -o, file path unchanged.

    pre: len(path) <= 3 and len(target) <= 3
    pre: 0 <= mode_i < 15
    post: _
    """
    seen = {}

    def fake_parse(fp, **kw):
        seen["fp"], seen["kw"] = fp, kw
        return []

    a = _Args()
    a.ddl_file_path, a.target, a.no_dump, a.v, a.output_mode = path, target, no_dump, v, VALID_MODES[mode_i]
    old, oldpp = cli_mod.parse_from_file, cli_mod.pprint.pprint
    cli_mod.parse_from_file = fake_parse
    cli_mod.pprint.pprint = lambda *x, **k: None
    try:
        cli_mod.run_for_file(a)
    finally:
        cli_mod.parse_from_file = old
        cli_mod.pprint.pprint = oldpp
    return seen["fp"] == path and seen["kw"] == {"dump": not no_dump, "dump_path": target, "output_mode": VALID_MODES[mode_i]}
