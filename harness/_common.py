"""Shared helpers for CrossHair harness modules.

Imported inside the CrossHair process (and inside replay subprocesses) with the
scratch copy of the working tree first on sys.path.  The parser object is built
here, at import time, i.e. outside CrossHair's tracing.
"""
import logging
import os

from ply.lex import LexToken
from ply.yacc import YaccProduction, YaccSymbol

from simple_ddl_parser import DDLParser

logging.disable(logging.CRITICAL)

PARSER = DDLParser("")
PARSER_NORM = None  # built lazily by harnesses that need normalize_names=True


def env(name: str, default=None):
    v = os.environ.get(name)
    return default if v is None else v


def env_int(name: str, default: int = 0) -> int:
    return int(os.environ.get(name, default))


def prod(values, stack=None):
    """A real ply YaccProduction whose p[1:] are `values`; p[0] reads back."""
    syms = []
    for v in [None] + list(values):
        s = YaccSymbol()
        s.type = "x"
        s.value = v
        syms.append(s)
    return YaccProduction(syms, stack)


def call_action(name: str, values, parser=None):
    """Run the real semantic action `p_<name>` on right-hand-side values."""
    p = prod(values)
    getattr(parser or PARSER, name)(p)
    return p[0]


def token(value: str, type_: str = "ID"):
    t = LexToken()
    t.type = type_
    t.value = value
    t.lineno = 1
    t.lexpos = 0
    return t


class StubLexer:
    """Token source for the real yacc driver: yields prepared (type, value) pairs."""

    def __init__(self, toks):
        self.toks = list(toks)
        self.i = 0

    def input(self, s):
        pass

    def token(self):
        if self.i >= len(self.toks):
            return None
        ty, va = self.toks[self.i]
        self.i += 1
        return token(va, ty)


def drive(toks, parser=None):
    """Real LALR driver + real actions over a prepared token stream."""
    prs = parser or PARSER
    return prs.yacc.parse("x", lexer=StubLexer(toks))


DIGITS = "0123456789"


def digits(n: int, d1: int, d2: int, d3: int, d4: int = 0, d5: int = 0, d6: int = 0) -> str:
    """Decimal numeral of exactly n digits built from symbolic digit values
    (no str(int) on a symbolic int: CrossHair does not exhaust that)."""
    ds = [d1, d2, d3, d4, d5, d6][:n]
    return "".join(DIGITS[d] for d in ds)
