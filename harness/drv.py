"""CH-drv — CREATE TABLE through the real LALR driver + tables, the real semantic actions and
the real output post-processing, behind a stub lexer (token types fixed by the item forms,
values symbolic where the code only copies them).

C01: one column under test at a symbolic position among plain neighbours, its type form fixed
per process (VF_TYPE), two options chosen by symbolic indices (any order, repeats allowed),
symbolic default text / size digits.
C02: three plain columns a, b, c followed by two table-level items chosen by symbolic indices.
The expected table entry is computed by a small reference model of the property statement.
"""
from copy import deepcopy

from harness._common import PARSER, call_action, drive, env_int
from harness.out_common import fmt

ID = "ID"


def kw(*words):
    return [(w, w) for w in words]


def ident(v):
    return [(ID, v)]


def plain_col(name):
    return {"name": name, "type": "int", "size": None, "references": None, "unique": False, "nullable": True,
            "default": None, "check": None}


def ref(table, schema=None, column=None, on_delete=None, on_update=None):
    return {"table": table, "schema": schema, "on_delete": on_delete, "on_update": on_update,
            "deferrable_initially": None, "column": column}


# ------------------------------------------------------------------ C01: column options ------
# (name, tokens(v) , effect(col, pk_list, v))   v = symbolic value text used by the option
def _o_none(c, pk, v):
    pass


def _o_notnull(c, pk, v):
    c["nullable"] = False


def _o_null(c, pk, v):
    c["nullable"] = True


def _o_default_id(c, pk, v):
    c["default"] = v


def _o_default_str(c, pk, v):
    c["default"] = "'" + v + "'"


def _o_default_null(c, pk, v):
    c["default"] = "NULL"


def _o_pk(c, pk, v):
    if c["name"] not in pk:
        pk.append(c["name"])


def _o_unique(c, pk, v):
    c["unique"] = True


def _o_ref(c, pk, v):
    c["references"] = ref("o")


def _o_ref_col(c, pk, v):
    c["references"] = ref("o", None, "x")


def _o_ref_schema(c, pk, v):
    c["references"] = ref("o", "s2", "x")


def _o_ref_del(c, pk, v):
    c["references"] = ref("o", None, "x", on_delete="CASCADE")


OPTS = [
    ("none", lambda v: [], _o_none),
    ("NOT NULL", lambda v: kw("NOT", "NULL"), _o_notnull),
    ("NULL", lambda v: kw("NULL"), _o_null),
    ("DEFAULT id", lambda v: kw("DEFAULT") + ident(v), _o_default_id),
    ("DEFAULT 'str'", lambda v: kw("DEFAULT") + [("STRING_BASE", "'" + v + "'")], _o_default_str),
    ("DEFAULT NULL", lambda v: kw("DEFAULT", "NULL"), _o_default_null),
    ("DEFAULT ('str')", lambda v: kw("DEFAULT") + [("LP", "("), ("STRING_BASE", "'" + v + "'"), ("RP", ")")], _o_default_str),
    ("DEFAULT (id)", lambda v: kw("DEFAULT") + [("LP", "(")] + ident(v) + [("RP", ")")], _o_default_id),
    ("PRIMARY KEY", lambda v: kw("PRIMARY", "KEY"), _o_pk),
    ("UNIQUE", lambda v: kw("UNIQUE"), _o_unique),
    ("REFERENCES o", lambda v: kw("REFERENCES") + ident("o"), _o_ref),
    ("REFERENCES o (x)", lambda v: kw("REFERENCES") + ident("o") + [("LP", "(")] + ident("x") + [("RP", ")")], _o_ref_col),
    ("REFERENCES s2.o (x)", lambda v: kw("REFERENCES") + ident("s2") + [("DOT", ".")] + ident("o") + [("LP", "(")] + ident("x") + [("RP", ")")], _o_ref_schema),
    ("REFERENCES o (x) ON DELETE CASCADE", lambda v: kw("REFERENCES") + ident("o") + [("LP", "(")] + ident("x") + [("RP", ")")] + kw("ON", "DELETE") + ident("CASCADE"), _o_ref_del),
]
NO = len(OPTS)
# option pairs the reference model does not cover: two defaults (the second is appended to the
# first by the `default id` production), two REFERENCES, REFERENCES directly followed by NOT
# NULL-less forms are fine.  DEFAULT <id> followed by anything starting with an ID is excluded
# because `default : default id` legitimately continues the default expression.
DEFAULTS = {3, 4, 5, 6, 7}
REFS = {10, 11, 12, 13}

TYPE = env_int("VF_TYPE", 0)
O1 = env_int("VF_O1", -1)
TYPES = ["int", "varchar(n)", "decimal(p,s)", "s.T"]


def type_tokens(n1: str, n2: str):
    if TYPE == 0:
        return ident("int"), "int", None
    if TYPE == 1:
        return ident("varchar") + [("LP", "(")] + ident(n1) + [("RP", ")")], "varchar", _num(n1)
    if TYPE == 2:
        return (ident("decimal") + [("LP", "(")] + ident(n1) + [("COMMA", ",")] + ident(n2) + [("RP", ")")], "decimal",
                (_num(n1), _num(n2)))
    return ident("s") + [("DOT", ".")] + ident("T"), "s.T", None


def _num(s: str) -> int:
    v = 0
    for ch in s:
        v = v * 10 + (ord(ch) - 48)
    return v


TSCHEMA = "shop" if env_int("VF_TSCHEMA", 0) else None  # the table under test is written schema-qualified


def table_tokens(cols_tokens, tail_items=()):
    toks = kw("CREATE", "TABLE") + (ident(TSCHEMA) + [("DOT", ".")] if TSCHEMA else []) + ident("t") + [("LP", "(")]
    for i, ct in enumerate(cols_tokens):
        if i:
            toks.append(("COMMA", ","))
        toks += ct
    for it in tail_items:
        toks.append(("COMMA", ","))
        toks += it
    toks.append(("RP", ")"))
    return toks


def expected_table(cols, pk, **extra):
    for c in cols:
        if c["name"] in pk:
            c["nullable"] = False
    t = {"table_name": "t", "schema": TSCHEMA, "primary_key": pk, "columns": cols, "alter": {}, "checks": [], "index": [],
         "partitioned_by": [], "tablespace": None}
    t.update(extra)
    return t


def norm_refs(res):
    """A column's reference is reported as {'column': x} or - when NULL / NOT NULL follows the
    REFERENCES clause (shape pinned by tests/test_simple_ddl_parser.py::test_reference_not_null)
    - as {'columns': [x]}: the property fixes the content, not the key; both are accepted."""
    for t in res:
        for c in t.get("columns", []):
            r = c.get("references")
            if isinstance(r, dict) and "columns" in r and isinstance(r["columns"], list) and len(r["columns"]) == 1:
                r = dict(r)
                r["column"] = r.pop("columns")[0]
                c["references"] = {k: r[k] for k in ["table", "schema", "on_delete", "on_update", "deferrable_initially", "column"] if k in r}
    return res


def _column_case(pos, o1, o2, v, n1, n2):
    ttoks, tname, tsize = type_tokens(n1, n2)
    col_toks = ident("k") + ttoks + OPTS[o1][1](v) + OPTS[o2][1](v)
    names = ["p", "q"]
    cols_tokens, cols, pk = [], [], []
    j = 0
    for i in range(3):
        if i == pos:
            cols_tokens.append(col_toks)
            c = plain_col("k")
            c["type"], c["size"] = tname, tsize
            OPTS[o1][2](c, pk, v)
            OPTS[o2][2](c, pk, v)
            cols.append(c)
        else:
            cols_tokens.append(ident(names[j]) + ident("int"))
            cols.append(plain_col(names[j]))
            j += 1
    return cols_tokens, cols, pk


def c_column(pos: int, o1: int, o2: int) -> bool:
    """
    C01: a column with two options (any two of the catalogue, any order) at position pos of a
    three-column table comes back with exactly the declared name, type, size, nullability,
    default, unique flag and reference; its neighbours are untouched; order kept.

    pre: 0 <= pos <= 2
    pre: 0 <= o1 < NO and 0 <= o2 < NO
    pre: O1 < 0 or o1 == O1
    pre: not (o1 in DEFAULTS and o2 in DEFAULTS) and not (o1 in REFS and o2 in REFS)
    pre: not (o1 == 3 and o2 in REFS)
    post: _
    """
    cols_tokens, cols, pk = _column_case(pos, o1, o2, "ab", "10", "2")
    out = drive(table_tokens(cols_tokens))
    if not isinstance(out, dict):
        return False
    res = norm_refs(fmt([out], "sql"))
    return res == [expected_table(cols, pk)]


def c_column3(pos: int, o1: int, o2: int, o3: int) -> bool:
    """
    C01 (thorough): as c_column with three options in any order.

    pre: 0 <= pos <= 2
    pre: 0 <= o1 < NO and 0 <= o2 < NO and 0 <= o3 < NO
    pre: O1 < 0 or o1 == O1
    pre: len([o for o in (o1, o2, o3) if o in DEFAULTS]) <= 1 and len([o for o in (o1, o2, o3) if o in REFS]) <= 1
    pre: not (o1 == 3 and o2 in REFS) and not (o2 == 3 and o3 in REFS)
    post: _
    """
    ttoks, tname, tsize = type_tokens("10", "2")
    col_toks = ident("k") + ttoks + OPTS[o1][1]("ab") + OPTS[o2][1]("ab") + OPTS[o3][1]("ab")
    names = ["p", "q"]
    cols_tokens, cols, pk = [], [], []
    j = 0
    for i in range(3):
        if i == pos:
            cols_tokens.append(col_toks)
            c = plain_col("k")
            c["type"], c["size"] = tname, tsize
            for o in (o1, o2, o3):
                OPTS[o][2](c, pk, "ab")
            cols.append(c)
        else:
            cols_tokens.append(ident(names[j]) + ident("int"))
            cols.append(plain_col(names[j]))
            j += 1
    out = drive(table_tokens(cols_tokens))
    if not isinstance(out, dict):
        return False
    res = norm_refs(fmt([out], "sql"))
    return res == [expected_table(cols, pk)]


def api_c_column3(pos, o1, o2, o3):
    from simple_ddl_parser import DDLParser
    ttoks, tname, tsize = type_tokens("10", "2")
    col = "k " + _text(ttoks).replace(" . ", ".") + " " + " ".join(_text(OPTS[o][1]("ab")).replace(" . ", ".") for o in (o1, o2, o3))
    cols_txt = ["p int", "q int"]
    cols_txt.insert(pos, col)
    ddl = "CREATE TABLE t ( " + " , ".join(cols_txt) + " ) ;"
    c = plain_col("k")
    c["type"], c["size"] = tname, tsize
    pk = []
    for o in (o1, o2, o3):
        OPTS[o][2](c, pk, "ab")
    cols = [plain_col("p"), plain_col("q")]
    cols.insert(pos, c)
    got = norm_refs(DDLParser(ddl).run())
    want = [expected_table(cols, pk)]
    return {"ddl": ddl, "got": got, "expected": want, "reproduced": got != want}


class UInt:
    def __init__(self, arg):
        self.arg = arg

    def __eq__(self, other):
        return isinstance(other, UInt) and self.arg == other.arg

    def __repr__(self):
        return f"int({self.arg!r})"


UF = env_int("VF_UF", 0)
if UF:
    import simple_ddl_parser.dialects.sql as _sqlmod
    _sqlmod.int = UInt  # int() uninterpreted for dialects/sql.py (see harness/c17.py)
MAXV = env_int("VF_MAXV", 3)
DKIND = env_int("VF_DKIND", 0)


def c_default(v: str) -> bool:
    """
    C01/C07: the real p_default on DEFAULT <v>, v symbolic.  DKIND 0: v a lower-case word other
    than the keyword `for` (reported verbatim); DKIND 1: v the body of a quoted literal (reported
    with its quotes, verbatim); DKIND 2: v a digit string (reported as int(v); int uninterpreted).

    pre: 1 <= len(v) <= MAXV
    pre: DKIND != 0 or (all("a" <= ch <= "z" for ch in v) and v != "for")
    pre: DKIND != 2 or all("0" <= ch <= "9" for ch in v)
    pre: DKIND != 1 or "'" not in v
    post: _
    """
    if DKIND == 1:
        tok, want = "'" + v + "'", "'" + v + "'"
    elif DKIND == 2:
        tok, want = v, UInt(v)
    else:
        tok, want = v, v
    out = call_action("p_default", ["DEFAULT", tok])
    if out != {"default": want}:
        return False
    # and folded into an arbitrary finished column by the real p_defcolumn: only `default` changes
    col = plain_col("k")
    col["primary_key"] = False
    before = dict(col)
    col2 = call_action("p_defcolumn", [col, out])
    before["default"] = want
    return col2 == before


def _ival(s: str):
    """expected integer for numeral text s: uninterpreted under VF_UF, else its value computed digit by digit"""
    return UInt(s) if UF else _num(s)


def c_size(n1: str, n2: str) -> bool:
    """
    C01/C09: the real p_column on `column ( n )` (SFORM 0) / `column ( p , s )` (SFORM 1) with
    symbolic digit strings: size is int / (int, int) of exactly the written numerals (int
    uninterpreted), name and type untouched.

    pre: 1 <= len(n1) <= MAXV and all("0" <= ch <= "9" for ch in n1)
    pre: 1 <= len(n2) <= MAXV and all("0" <= ch <= "9" for ch in n2)
    post: _
    """
    col = call_action("p_column", ["k", {"type": "varchar"}])
    if col != {"name": "k", "type": "varchar", "size": None}:
        return False
    if SFORM == 0:
        out = call_action("p_column", [col, "(", n1, ")"])
        return out == {"name": "k", "type": "varchar", "size": _ival(n1)} and type(out["size"]) is type(_ival(n1))
    out = call_action("p_column", [col, "(", n1, ",", n2, ")"])
    return out == {"name": "k", "type": "varchar", "size": (_ival(n1), _ival(n2))}


SFORM = env_int("VF_SFORM", 0)


# ------------------------------------------------------------------ C02: table-level items ---
def pid(*names):
    toks = [("LP", "(")]
    for i, n in enumerate(names):
        if i:
            toks.append(("COMMA", ","))
        toks += ident(n)
    return toks + [("RP", ")")]


def _col(t, name):
    return next(c for c in t["columns"] if c["name"] == name)


def _cons(t, kind, entry):
    t.setdefault("constraints", {}).setdefault(kind, []).append(entry)


def _i_pk(cols):
    def eff(t):
        for c in cols:
            if c not in t["primary_key"]:
                t["primary_key"].append(c)
    return eff


def _i_named_pk(name, cols):
    def eff(t):
        _cons(t, "primary_keys", {"columns": list(cols), "constraint_name": name})
        for c in cols:
            if c not in t["primary_key"]:
                t["primary_key"].append(c)
    return eff


def _i_uniq(cols):
    def eff(t):
        if len(cols) == 1:
            _col(t, cols[0])["unique"] = True
        else:
            _cons(t, "uniques", {"columns": list(cols), "constraint_name": "UC_" + "_".join(cols)})
    return eff


def _i_named_uniq(name, cols):
    def eff(t):
        _cons(t, "uniques", {"columns": list(cols), "constraint_name": name})
    return eff


def _i_fk(cols, rcols, on_delete=None):
    def eff(t):
        for c, r in zip(cols, rcols):
            _col(t, c)["references"] = ref("o", None, r, on_delete=on_delete)
    return eff


def _i_named_fk(name, cols, rcols):
    def eff(t):
        _cons(t, "references", {"table": "o", "columns": list(rcols), "schema": None, "on_delete": None, "on_update": None,
                                "deferrable_initially": None, "name": cols[0] if len(cols) == 1 else list(cols),
                                "constraint_name": name})
    return eff


def _i_check(name):
    def eff(t):
        entry = {"constraint_name": name, "statement": "a > 1"}
        if name is not None:
            _cons(t, "checks", dict(entry))
        t["checks"].append(entry)
    return eff


NAMESETS = [["a", "b", "c"], ["id", "Id", "ID"], ['"n"', "n", "[n]"], ["x", "`x`", "X"], ["asc", "desc", "term"]]
NORM = env_int("VF_NORM", 0)  # normalize_names=True on the shared parser (only with the plain name set)
UKNAME = "`key`"
NAMES = NAMESETS[env_int("VF_NAMES", 0)]
A, B, C = NAMES
CHECK_TOKS = kw("CHECK") + [("LP", "(")] + ident("a") + ident(">") + ident("1") + [("RP", ")")]
ITEMS = [
    ("PRIMARY KEY (a)", kw("PRIMARY", "KEY") + pid(A), _i_pk([A])),
    ("PRIMARY KEY (b, a)", kw("PRIMARY", "KEY") + pid(B, A), _i_pk([B, A])),
    ("PRIMARY KEY (a, b, c)", kw("PRIMARY", "KEY") + pid(A, B, C), _i_pk([A, B, C])),
    ("CONSTRAINT k PRIMARY KEY (a, b)", kw("CONSTRAINT") + ident("k") + kw("PRIMARY", "KEY") + pid(A, B), _i_named_pk("k", [A, B])),
    ("UNIQUE (b)", kw("UNIQUE") + pid(B), _i_uniq([B])),
    ("UNIQUE (a, b)", kw("UNIQUE") + pid(A, B), _i_uniq([A, B])),
    ("UNIQUE (a, b, c)", kw("UNIQUE") + pid(A, B, C), _i_uniq([A, B, C])),
    ("CONSTRAINT u UNIQUE (c)", kw("CONSTRAINT") + ident("u") + kw("UNIQUE") + pid(C), _i_named_uniq("u", [C])),
    ("CONSTRAINT u UNIQUE (a, b, c)", kw("CONSTRAINT") + ident("u") + kw("UNIQUE") + pid(A, B, C), _i_named_uniq("u", [A, B, C])),
    ("FOREIGN KEY (c) REFERENCES o (x)", kw("FOREIGN", "KEY") + pid(C) + kw("REFERENCES") + ident("o") + pid("x"), _i_fk([C], ["x"])),
    ("FOREIGN KEY (a, b) REFERENCES o (x, y)", kw("FOREIGN", "KEY") + pid(A, B) + kw("REFERENCES") + ident("o") + pid("x", "y"), _i_fk([A, B], ["x", "y"])),
    ("FOREIGN KEY (a, b, c) REFERENCES o (x, y, z) ON DELETE CASCADE",
     kw("FOREIGN", "KEY") + pid(A, B, C) + kw("REFERENCES") + ident("o") + pid("x", "y", "z") + kw("ON", "DELETE") + ident("CASCADE"),
     _i_fk([A, B, C], ["x", "y", "z"], "CASCADE")),
    ("CONSTRAINT f FOREIGN KEY (b) REFERENCES o (x)", kw("CONSTRAINT") + ident("f") + kw("FOREIGN", "KEY") + pid(B) + kw("REFERENCES") + ident("o") + pid("x"), _i_named_fk("f", [B], ["x"])),
    ("CHECK (a > 1)", CHECK_TOKS, _i_check(None)),
    ("CONSTRAINT h CHECK (a > 1)", kw("CONSTRAINT") + ident("h") + CHECK_TOKS, _i_check("h")),
    ("PRIMARY KEY (a ASC, b)", kw("PRIMARY", "KEY") + [("LP", "(")] + ident(A) + ident("ASC") + [("COMMA", ",")] + ident(B) + [("RP", ")")], _i_pk([A, B])),
    ("PRIMARY KEY (a, b DESC, c)", kw("PRIMARY", "KEY") + [("LP", "(")] + ident(A) + [("COMMA", ",")] + ident(B) + ident("DESC") + [("COMMA", ",")] + ident(C) + [("RP", ")")], _i_pk([A, B, C])),
    ("FOREIGN KEY (b) REFERENCES s2.o (y) ON UPDATE CASCADE", kw("FOREIGN", "KEY") + pid(B) + kw("REFERENCES") + ident("s2") + [("DOT", ".")] + ident("o") + pid("y") + kw("ON", "UPDATE") + ident("CASCADE"),
     None),
]


def _i_fk_full(t):
    _col(t, B)["references"] = ref("o", "s2", "y", on_update="CASCADE")


ITEMS[-1] = (ITEMS[-1][0], ITEMS[-1][1], _i_fk_full)
ITEMS.append(("UNIQUE KEY `key` (a, b)", kw("UNIQUE", "KEY") + ident(UKNAME) + pid(A, B), _i_named_uniq("key" if NORM else UKNAME, [A, B])))
# (MySQL index-style UNIQUE KEY name (col): single column -> the column is flagged; the index name is not a constraint)
ITEMS.append(("UNIQUE KEY uk (b)", kw("UNIQUE", "KEY") + ident("uk") + pid(B), _i_uniq([B])))
NI = len(ITEMS)
PKS = {0, 1, 2, 3, 15, 16}
I1 = env_int("VF_I1", -1)


PK2 = env_int("VF_PK2", 0)  # inline PRIMARY KEY also on the third column (composite inline key, declaration order)


def _items_case(i1, i2, inline_pk, inline_unique, inline_fk):
    cols_tokens = [ident(A) + ident("int") + (kw("PRIMARY", "KEY") if inline_pk else []),
                   ident(B) + ident("int") + ((kw("CONSTRAINT") + ident("g") + kw("REFERENCES") + ident("r") + pid("z")) if inline_fk else []),
                   ident(C) + ident("int") + (kw("UNIQUE") if inline_unique else []) + (kw("PRIMARY", "KEY") if (inline_pk and PK2) else [])]
    t = expected_table([plain_col(A), plain_col(B), plain_col(C)], ([A, C] if PK2 else [A]) if inline_pk else [])
    t["columns"][0]["name"], t["columns"][1]["name"], t["columns"][2]["name"] = A, B, C
    if inline_unique:
        t["columns"][2]["unique"] = True
    if inline_fk:
        t["columns"][1]["references"] = ref("r", None, "z")
        t["columns"][1]["constraint"] = {"name": "g"}
    ITEMS[i1][2](t)
    ITEMS[i2][2](t)
    for c in t["columns"]:
        if c["name"] in t["primary_key"]:
            c["nullable"] = False
    return cols_tokens, t


def _col(t, name):
    cs = [c for c in t["columns"] if c["name"] == name]
    return cs[0]


FK_ON_B = {12, 17, 10, 11}


def c_items(i1: int, i2: int, inline_pk: bool, inline_unique: bool, inline_fk: bool) -> bool:
    """
    C02: three columns (names NAMES; the first optionally inline PRIMARY KEY, the second
    optionally with an inline named REFERENCES, the third optionally inline UNIQUE) followed by
    two table-level items (symbolic indices, any order): primary key list, forced NOT NULL,
    unique flags, named constraints, checks and references exactly as declared, each attached
    to its own column only.

    pre: 0 <= i1 < NI and 0 <= i2 < NI
    pre: I1 < 0 or i1 == I1
    pre: not (i1 in PKS and i2 in PKS) and not (inline_pk and (i1 in PKS or i2 in PKS))
    pre: i1 != i2
    pre: not (inline_fk and (i1 in FK_ON_B or i2 in FK_ON_B))
    pre: len([i for i in (i1, i2) if i in (9, 10, 11, 17)]) <= 1
    post: _
    """
    cols_tokens, t = _items_case(i1, i2, inline_pk, inline_unique, inline_fk)
    PARSER.normalize_names = bool(NORM)
    try:
        out = drive(table_tokens(cols_tokens, [ITEMS[i1][1], ITEMS[i2][1]]))
    finally:
        PARSER.normalize_names = False
    if not isinstance(out, dict):
        return False
    res = norm_refs(fmt([out], "sql"))
    return res == [t]


# ------------------------------------------------------------------ replay -------------------
def _text(toks):
    return " ".join(v for _, v in toks)


def api_c_column(pos, o1, o2):
    from simple_ddl_parser import DDLParser
    cols_tokens, cols, pk = _column_case(pos, o1, o2, "ab", "10", "2")
    ddl = _text(table_tokens(cols_tokens)).replace(" . ", ".") + " ;"
    got = norm_refs(DDLParser(ddl).run())
    want = [expected_table(cols, pk)]
    return {"ddl": ddl, "got": got, "expected": want, "reproduced": got != want}


def api_c_default(v):
    from simple_ddl_parser import DDLParser
    if DKIND == 1:
        safe = "".join(ch if (ch.isalnum() or ch in " _-") and ch.isascii() else "x" for ch in v)
        dtxt, want = "'" + safe + "'", "'" + safe + "'"
    elif DKIND == 2:
        dtxt, want = v, int(v)
    else:
        dtxt, want = v, v
    c = plain_col("k")
    c["default"] = want
    c["nullable"] = False
    ddl = "CREATE TABLE t ( p int , k int DEFAULT " + dtxt + " NOT NULL , q int ) ;"
    got = norm_refs(DDLParser(ddl).run())
    want_t = [expected_table([plain_col("p"), c, plain_col("q")], [])]
    return {"ddl": ddl, "got": got, "expected": want_t, "reproduced": got != want_t}


def api_c_size(n1, n2):
    from simple_ddl_parser import DDLParser
    ty = ["varchar ( %s )" % n1, "varchar ( %s , %s )" % (n1, n2)][SFORM]
    size = [int(n1), (int(n1), int(n2))][SFORM]
    c = plain_col("k")
    c["type"] = "varchar"
    c["size"] = size
    c["nullable"] = False
    ddl = f"CREATE TABLE t ( p int , k {ty} NOT NULL , q int ) ;"
    got = DDLParser(ddl).run()
    want = [expected_table([plain_col("p"), c, plain_col("q")], [])]
    return {"ddl": ddl, "got": got, "expected": want, "reproduced": json_norm(got) != json_norm(want)}


def json_norm(x):
    import json
    return json.loads(json.dumps(x))


def api_c_items(i1, i2, inline_pk, inline_unique, inline_fk):
    from simple_ddl_parser import DDLParser
    cols_tokens, t = _items_case(i1, i2, inline_pk, inline_unique, inline_fk)
    ddl = _text(table_tokens(cols_tokens, [ITEMS[i1][1], ITEMS[i2][1]])).replace(" . ", ".") + " ;"
    got = norm_refs(DDLParser(ddl, normalize_names=bool(NORM)).run())
    return {"ddl": ddl, "got": got, "expected": [t], "reproduced": got != [t]}
