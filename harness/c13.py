"""C13 — group_by_type is a lossless, order-preserving regrouping of the flat result.

Structural choice per process: VF_MODE (output mode), VF_N (number of entities), VF_K3 (kind of
the last entity when VF_N == 3, so that only two kinds are symbolic per process).
Symbolic: the kinds of the other entities (names are concrete: get_table_id runs a regex on them).
"""
from copy import deepcopy

from harness._common import PARSER, env, env_int
from simple_ddl_parser.output.core import Output

MODE = env("VF_MODE", "sql")
N = env_int("VF_N", 2)
K3 = env_int("VF_K3", 0)

KINDS = ["table", "sequence", "type", "domain", "schema", "database", "tablespace", "ddl_property", "comments"]
BUCKET = {"table": "tables", "sequence": "sequences", "type": "types", "domain": "domains", "schema": "schemas",
          "database": "databases", "tablespace": "tablespaces", "ddl_property": "ddl_properties", "comments": "comments"}
ALWAYS = ["tables", "types", "sequences", "domains", "schemas", "ddl_properties"]
SCHEMA_KEY = "dataset" if MODE == "bigquery" else "schema"


def parser_entity(kind: str, name: str):
    """What parse_data() hands to Output for one statement of this kind (shapes taken from the
    real parser; names are symbolic)."""
    if kind == "table":
        return {"schema": None, "table_name": name,
                "columns": [{"name": "a", "type": "int", "size": None, "references": None, "unique": False,
                             "primary_key": False, "nullable": True, "default": None, "check": None}],
                "checks": []}
    if kind == "sequence":
        return {"schema": None, "sequence_name": name, "increment_by": 1}
    if kind == "type":
        return {"schema": None, "type_name": name, "properties": {"values": ["'a'"]}, "base_type": "ENUM"}
    if kind == "domain":
        return {"schema": None, "domain_name": name, "base_type": "varchar", "properties": {}}
    if kind == "schema":
        return {"schema_name": name}
    if kind == "database":
        return {"database_name": name}
    if kind == "tablespace":
        return {"tablespace_name": name, "properties": None, "type": None, "temporary": False}
    if kind == "ddl_property":
        return {"name": "x", "value": name}
    return {"comments": [name, " x"]}


def _run(stmts, group):
    """The real Parser.run with parse_data stubbed to hand over prepared statements."""
    PARSER.parse_data = lambda: deepcopy(stmts)
    try:
        return PARSER.run(output_mode=MODE, group_by_type=group)
    finally:
        del PARSER.parse_data


def _check(kinds, names) -> bool:
    stmts = [parser_entity(KINDS[k], nm) for k, nm in zip(kinds, names)]
    flat = _run(stmts, False)
    grouped = _run(stmts, True)
    if not isinstance(grouped, dict) or not isinstance(flat, list) or len(flat) != len(stmts):
        return False
    for b in ALWAYS:
        if b not in grouped or not isinstance(grouped[b], list):
            return False
    # expected regrouping computed from the flat list by kind (the kinds are known to the harness)
    expected = {b: [] for b in ALWAYS}
    for k, ent in zip(kinds, flat):
        b = BUCKET[KINDS[k]]
        if b == "comments":
            expected.setdefault("comments", []).extend(ent["comments"])
        else:
            expected.setdefault(b, []).append(ent)
    return grouped == expected


def c_group2(k1: int, k2: int, v: str) -> bool:
    """
    pre: 0 <= k1 < 9 and 0 <= k2 < 9
    pre: len(v) <= 1
    post: _
    """
    # v: the value of a SET statement / text of a comment - may be empty ("SET x ON ;" really yields "")
    if N == 0:
        return _check([], [])
    if N == 1:
        return _check([k1], [v if k1 >= 7 else "n1"])
    if N == 2:
        return _check([k1, k2], ["n1", v if k2 >= 7 else "n2"])
    return _check([k1, k2, K3], ["n1", v if k2 >= 7 else "n2", "n3"])


def api_c_group2(k1, k2, v):
    from simple_ddl_parser import DDLParser
    spell = {"table": "CREATE TABLE {} (a int);", "sequence": "CREATE SEQUENCE {} INCREMENT BY 1;",
             "type": "CREATE TYPE {} AS ENUM ('a');", "domain": "CREATE DOMAIN {} AS varchar(3);",
             "schema": "CREATE SCHEMA {};", "database": "CREATE DATABASE {};", "tablespace": "CREATE TABLESPACE {};",
             "ddl_property": "SET x {} ;", "comments": "CREATE TABLE c{} (a int) -- note;"}
    kinds = [k1, k2, K3][:N]
    names = ["n1", "n2", "n3"][:N]
    if N >= 1 and kinds[min(N, 2) - 1] >= 7:
        names[min(N, 2) - 1] = v if KINDS[kinds[min(N, 2) - 1]] == "ddl_property" else "n9"
    ddl = "\n".join(spell[KINDS[k]].format(nm) for k, nm in zip(kinds, names))
    # SET as the very last statement is a separately recorded finding of C03: keep it out of the replay
    if KINDS[kinds[-1]] == "ddl_property":
        ddl += "\nCREATE SCHEMA tail;"
    flat = DDLParser(ddl).run(output_mode=MODE)
    grouped = DDLParser(ddl).run(output_mode=MODE, group_by_type=True)
    keymap = {"table_name": "tables", "sequence_name": "sequences", "type_name": "types", "domain_name": "domains",
              "schema_name": "schemas", "tablespace_name": "tablespaces", "database_name": "databases"}
    expected = {b: [] for b in ALWAYS}
    for ent in flat:
        if "comments" in ent and len(ent) == 1:
            expected.setdefault("comments", []).extend(ent["comments"])
            continue
        b = next((v for k, v in keymap.items() if k in ent), "ddl_properties")
        expected.setdefault(b, []).append(ent)
    return {"ddl": ddl, "expected": expected, "got": grouped, "reproduced": grouped != expected}
