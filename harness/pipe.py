"""CH-pipe — the whole pipeline (pre-processor, real PLY lexer, LALR driver, actions, output) on
statements assembled from catalogues by symbolic indices.  The text reaching the regular
expressions is concrete on every path (probing showed symbolic text through them does not
terminate); the solver chooses which catalogue entries meet at which position.

C09 types x following option x column position; C07 literals x literal position;
C11 dialect clauses, two per table, any order; C18 entity statements alone and between tables.
"""
import json
import os
from copy import deepcopy

from harness._common import PARSER, env, env_int
from harness.out_common import memoise_dialect_classes, untraced_filter

memoise_dialect_classes()
untraced_filter()
import harness.out_common as _oc  # (this file may run as a generated twin copy elsewhere)
CAT = os.path.join(os.path.dirname(os.path.dirname(os.path.abspath(_oc.__file__))), "catalog")


def run(text: str, mode: str = "sql", **kw):
    """the real Parser.run on the shared parser object (data = constructor's unicode_escape form)"""
    PARSER.data = text.encode("unicode_escape")
    return PARSER.run(output_mode=mode, **kw)


def squeeze(s):
    return "".join(str(s).split())


# ------------------------------------------------------------------ C09 ----------------------
# (written type, expected type text (blank-insensitive), expected size)
TYPES = [
    ("int", "int", None), ("varchar(10)", "varchar", 10), ("decimal(10,2)", "decimal", (10, 2)), ("decimal(10, 2)", "decimal", (10, 2)),
    ("varchar(max)", "varchar", "max"), ("varchar2(30 CHAR)", "varchar2", "30 CHAR"), ("number(*,2)", "number", ("*", 2)),
    ("int[]", "int[]", None), ("text[][]", "text[][]", None), ("double precision", "double precision", None),
    ("character varying(10)", "character varying", 10), ("double precision[]", "double precision[]", None),
    ("ARRAY < STRING >", "ARRAY<STRING>", None), ("MAP<STRING,INT>", "MAP<STRING,INT>", None), ("MAP<STRING, INT>", "MAP<STRING,INT>", None),
    ("MAP<STRING,ARRAY<INT>>", "MAP<STRING,ARRAY<INT>>", None), ("MAP<STRING, ARRAY<INT>>", "MAP<STRING,ARRAY<INT>>", None),
    ("STRUCT<a:INT,b:STRING>", "STRUCT<a:INT,b:STRING>", None), ("STRUCT<a ARRAY<STRING>, b BOOL>", "STRUCT<aARRAY<STRING>,bBOOL>", None),
    ("ARRAY<STRUCT<a:INT,b:STRING>>", "ARRAY<STRUCT<a:INT,b:STRING>>", None), ("ARRAY<MAP<STRING,INT>>", "ARRAY<MAP<STRING,INT>>", None),
    ("numeric(10,2)[]", "numeric[]", (10, 2)), ("decimal(10,2) unsigned", "decimal unsigned", (10, 2)), ("int unsigned", "int unsigned", None),
    ("varchar(5)[]", "varchar[]", 5),
    ("ARRAY<STRING>", "ARRAY<STRING>", None), ("ARRAY<ARRAY<INT>>", "ARRAY<ARRAY<INT>>", None), ("STRUCT<a:STRUCT<b:INT>>", "STRUCT<a:STRUCT<b:INT>>", None),
    # depth 4, closing brackets glued / partly detached
    ("MAP<STRING, ARRAY<STRUCT<x:INT, y:ARRAY<INT> >>>", "MAP<STRING,ARRAY<STRUCT<x:INT,y:ARRAY<INT>>>>", None),
    ("MAP<STRING, ARRAY<STRUCT<x:INT, y:ARRAY<INT>>>>", "MAP<STRING,ARRAY<STRUCT<x:INT,y:ARRAY<INT>>>>", None),
    ("ARRAY<STRUCT<a:INT, b:ARRAY<MAP<STRING,INT>> >>", "ARRAY<STRUCT<a:INT,b:ARRAY<MAP<STRING,INT>>>>", None),
]
NT = len(TYPES)
TOPTS = [("", {}), (" NOT NULL", {"nullable": False}), (" DEFAULT 1", {"default": 1}), (" COMMENT 'c'", {"comment": "'c'"}),
         (" NOT NULL DEFAULT 1", {"nullable": False, "default": 1})]
NTO = len(TOPTS)
POS = env_int("VF_POS", -1)
PV = env_int("VF_PV", -1)
PLAIN_P = {"name": "p", "type": "int", "size": None, "references": None, "unique": False, "nullable": True, "default": None, "check": None}
PLAIN_Q = {"name": "q", "type": "varchar", "size": 5, "references": None, "unique": False, "nullable": True, "default": None, "check": None}


def kf_angle_token(ti: int) -> bool:
    """known finding C09/angle-brackets-in-one-token: a whitespace-delimited word of the type
    that contains both '<' and '>' and starts the type (ARRAY<STRING>, ARRAY<ARRAY<INT>>) - the
    whole table is lost."""
    first = TYPES[ti][0].replace(",", " , ").split()[0]
    return "<" in first and ">" in first


PVARIANTS = [("p int", {}), ("p int DEFAULT 1", {"default": 1}), ("p int NOT NULL", {"nullable": False}), ("p int CHECK (p > 0)", {"check": "p > 0"})]
NPV = len(PVARIANTS)


def kf_check_before_angle_type(ti: int, pos: int, pv: int) -> bool:
    """known finding C09/check-before-angle-type: a CHECK in an earlier column leaves the lexer's
    `check` flag set for the rest of the statement; '<' / '>' of a later <...> type are then not
    lexed as brackets and the table is lost."""
    return pv == 3 and pos >= 1 and "<" in TYPES[ti][0]


def _c09_case(ti, oi, pos, pv=0):
    written, ttext, tsize = TYPES[ti]
    k = "k " + written + TOPTS[oi][0]
    cols = [PVARIANTS[pv][0], "q varchar(5)"]
    cols.insert(pos, k)
    return "CREATE TABLE t (" + ", ".join(cols) + ");"


def _c09_ok(res, ti, oi, pos, pv=0) -> bool:
    if not isinstance(res, list) or len(res) != 1 or len(res[0].get("columns", [])) != 3:
        return False
    cols = res[0]["columns"]
    others = [c for i, c in enumerate(cols) if i != pos]
    if others != [dict(PLAIN_P, **PVARIANTS[pv][1]), PLAIN_Q]:
        return False
    c = cols[pos]
    written, ttext, tsize = TYPES[ti]
    if c["name"] != "k" or c["size"] != tsize:
        return False
    # <...> types: inner commas are re-spaced by the parser, compared blank-insensitively;
    # every other type (incl. two-word types and [] suffixes) must come back verbatim
    if (squeeze(c["type"]) != squeeze(ttext)) if "<" in written else (c["type"] != ttext):
        return False
    if c["type"].count("<") != c["type"].count(">") or c["type"].count("[") != c["type"].count("]"):
        return False
    want = {"nullable": True, "default": None}
    want.update(TOPTS[oi][1])
    return all(c.get(k) == v for k, v in want.items())


def c_type(ti: int, oi: int, pos: int, pv: int) -> bool:
    """
    C09: a column of catalogued type #ti followed by option set #oi at position pos of a
    three-column table whose first plain neighbour carries option variant pv (none / DEFAULT /
    NOT NULL / CHECK): one type string with balanced brackets, the declared size, the options
    kept, both neighbours exactly as next to a plain type.

    pre: 0 <= ti < NT and 0 <= oi < NTO and 0 <= pos <= 2
    pre: 0 <= pv < NPV
    pre: PV < 0 or pv == PV
    pre: not kf_check_before_angle_type(ti, pos, pv)
    pre: POS < 0 or pos == POS
    pre: not kf_angle_token(ti)
    post: _
    """
    return _c09_ok(run(_c09_case(ti, oi, pos, pv)), ti, oi, pos, pv)


FIRSTS = ["CREATE TABLE z (a int CHECK (a > 1));", "CREATE TABLE z (a int);\nALTER TABLE z ADD CONSTRAINT k CHECK (a > 1);", "CREATE TABLE z (a int DEFAULT 1);",
          "CREATE TABLE z (a MAP<STRING,INT>);", "CREATE TABLE z LIKE y;", "CREATE SEQUENCE zq START 1;",
          # an unpaired '<' outside a CHECK, in an unsupported and in a supported earlier statement
          "CREATE VIEW v AS SELECT id FROM o WHERE amount < 5;", "CREATE TABLE z (a int);\nCREATE INDEX i1 ON z (a) WHERE a < 5;"]
NF = len(FIRSTS)


def c_type_after(ti: int, fi: int) -> bool:
    """
    C09 / C03: a table with a column of catalogued type #ti parsed after an earlier statement
    (CHECK in a table or in an ALTER, DEFAULT, a <...> type, LIKE, a sequence - symbolic) is
    exactly what it is alone.

    pre: 0 <= ti < NT and 0 <= fi < NF
    pre: not kf_angle_token(ti)
    post: _
    """
    res = run(FIRSTS[fi] + "\n" + _c09_case(ti, 1, 1, 0))
    return isinstance(res, list) and len(res) >= 1 and _c09_ok([res[-1]], ti, 1, 1, 0)


def api_c_type_after(ti, fi):
    from simple_ddl_parser import DDLParser
    ddl = FIRSTS[fi] + "\n" + _c09_case(ti, 1, 1, 0)
    got = DDLParser(ddl).run()
    return {"ddl": ddl, "got": got, "expected_type": TYPES[ti][1], "reproduced": not (len(got) >= 1 and _c09_ok([got[-1]], ti, 1, 1, 0))}


def api_c_type(ti, oi, pos, pv):
    from simple_ddl_parser import DDLParser
    ddl = _c09_case(ti, oi, pos, pv)
    got = DDLParser(ddl).run()
    return {"ddl": ddl, "got": got, "expected_type": TYPES[ti][1], "expected_size": TYPES[ti][2], "reproduced": not _c09_ok(got, ti, oi, pos, pv)}


# ------------------------------------------------------------------ C07 ----------------------
LITERALS = ["'a'", "'a b'", "'A b C'", "'k = v'", "'a =b'", "'x  = y'", "'a;b'", "'--x'", "'#x'", "'/* x */'", "'NULL'", "'select'",
            "'CREATE TABLE z'", "'10%'", "'a.b'", "'a_b-c'", "'(x)'", "'a,b'", "'a, b'", "'a=b'", "'it is'", "''", "'black and white'", "'this Or that'",
            "'not null'", "'a''b''c'", "'it''s'", "'rock ''n'' roll'", "'not for sale'", "'FOR'", "'x for'",
            "'Order # 5'", "'a # b'", "'#fff'", "'see #12'", "'a -- b'", "'50 % off'", "'00420'", "'123'"]
NLIT = len(LITERALS)
NUMBERS = ["0", "1", "4", "10", "007", "00", "0012", "123456", "9223372036854775808"]
NNUM = len(NUMBERS)
# literal positions: statement template, where to find the literal in the result
POSITIONS = [
    ("default", "CREATE TABLE t (p int, k varchar(20) DEFAULT {L} NOT NULL, q int);", lambda r: r[0]["columns"][1]["default"]),
    ("column comment", "CREATE TABLE t (p int, k varchar(20) COMMENT {L}, q int);", lambda r: r[0]["columns"][1]["comment"]),
    ("table comment", "CREATE TABLE t (p int, q int) COMMENT {L};", lambda r: r[0]["comment"]),
    ("enum value", "CREATE TYPE e AS ENUM ('first', {L}, 'last');", lambda r: r[0]["properties"]["values"][1]),
    ("check in-list", "CREATE TABLE t (p varchar(9) CHECK (p IN ('u', {L})), q int);", lambda r: r[0]["columns"][0]["check"][0]["in_statement"]["in"][1]),
    ("location option", "CREATE TABLE t (p int, q int) LOCATION {L};", lambda r: r[0]["table_properties"]["location"]),
    ("column check", "CREATE TABLE t (p varchar(9) CHECK (p <> {L}), q int);", lambda r: r[0]["columns"][0]["check"][len("p <> "):]),
    ("named table check", "CREATE TABLE t (p varchar(9), q int, CONSTRAINT c CHECK (p <> {L}));", lambda r: r[0]["checks"][0]["statement"][len("p <> "):]),
    ("ALTER ADD DEFAULT FOR (column default)", "CREATE TABLE t (p int, k varchar(20), q int);\nALTER TABLE t ADD CONSTRAINT d DEFAULT {L} FOR k;", lambda r: r[0]["columns"][1]["default"]),
    ("ALTER ADD DEFAULT FOR (alter section)", "CREATE TABLE t (p int, k varchar(20), q int);\nALTER TABLE t ADD CONSTRAINT d DEFAULT {L} FOR k;", lambda r: r[0]["alter"]["defaults"][0]["value"]),
]
NPOS = len(POSITIONS)
PI = env_int("VF_PI", -1)
# known finding C07/respaced-literal: the pre-processor's spacing rules for '(' ')' ', ' '=' and
# its comment scanner reach inside quotes - literals containing them come back altered
KF_LITERALS = {"'(x)'", "'a, b'", "'a=b'", "'/* x */'"}


def kf_respaced_literal(li: int) -> bool:
    return LITERALS[li] in KF_LITERALS


def _c07_ok(res, li, pi) -> bool:
    try:
        return POSITIONS[pi][2](res) == LITERALS[li]
    except Exception:
        return False


def c_literal(li: int, pi: int) -> bool:
    """
    C07: catalogued literal #li written at literal position #pi comes back with exactly the
    characters written, quotes included.

    pre: 0 <= li < NLIT and 0 <= pi < NPOS
    pre: PI < 0 or pi == PI
    pre: not kf_respaced_literal(li)
    post: _
    """
    try:
        res = run(POSITIONS[pi][1].replace("{L}", LITERALS[li]))
    except Exception:
        return False
    return _c07_ok(res, li, pi)


def api_c_literal(li, pi):
    from simple_ddl_parser import DDLParser
    ddl = POSITIONS[pi][1].replace("{L}", LITERALS[li])
    got = DDLParser(ddl).run()
    return {"ddl": ddl, "got": got, "expected_literal": LITERALS[li], "reproduced": not _c07_ok(got, li, pi)}


def c_number(ni: int, last: bool) -> bool:
    """
    C07: a purely numeric DEFAULT is reported as the integer of the same value (leading zeros,
    many digits included).

    pre: 0 <= ni < NNUM
    post: _
    """
    ddl = "CREATE TABLE t (p int, k int DEFAULT " + NUMBERS[ni] + (");" if last else ", q int);")
    res = run(ddl)
    v = res[0]["columns"][1]["default"] if res else None
    return type(v) is int and v == int(NUMBERS[ni])


def api_c_number(ni, last):
    from simple_ddl_parser import DDLParser
    ddl = "CREATE TABLE t (p int, k int DEFAULT " + NUMBERS[ni] + (");" if last else ", q int);")
    got = DDLParser(ddl).run()
    v = got[0]["columns"][1]["default"] if got else None
    return {"ddl": ddl, "got_default": v, "expected": int(NUMBERS[ni]), "reproduced": not (type(v) is int and v == int(NUMBERS[ni]))}


# ------------------------------------------------------------------ C06: identifier characters, relational ----
# the same statement written with the neutral name `zz` and with a catalogued name: the result with the name must be the
# result with `zz`, renamed - for every name position (table, schema, column in definition / key list / constraint list /
# index list / ALTER, constraint, index, sequence, referenced table)
IDENT_TEMPLATES = [
    "CREATE TABLE {N} (a int, b int);",
    "CREATE TABLE s.t (p int, {N} varchar(10) NOT NULL, q int, PRIMARY KEY ({N}));",
    "CREATE TABLE t (p int, {N} int, q int, CONSTRAINT c1 UNIQUE ({N}, q));",
    "CREATE TABLE t (p int, q int, CONSTRAINT {N} PRIMARY KEY (p));",
    "CREATE TABLE t (p int, q int);\nCREATE INDEX {N} ON t (p);",
    "CREATE TABLE t (p int, {N} int);\nCREATE INDEX i ON t ({N});",
    "CREATE SEQUENCE {N} START 1;",
    "CREATE TABLE t (p int, q int REFERENCES {N} (x));",
    "CREATE TABLE t (p int, {N} int);\nALTER TABLE t DROP COLUMN {N};",
    "CREATE TABLE {N}.t (p int);",
    "CREATE TABLE t (\n  p int,\n  {N} int, q int,\n  r int\n);",
    "CREATE TABLE t (p int, {N} int DEFAULT 0 NOT NULL, q int);",
]
NIT = len(IDENT_TEMPLATES)
IDENT_NAMES = ["serial#", "user#", "a$b", "col#1", "x@y", "_x", "x1", "UserName", "x-y", "tmp$", "$a", "@v", "a#b#", "ZZ", "`order#`", '"FILE#"', "[a#]", "`ab`"]
NIN = len(IDENT_NAMES)


def _rename(o, a, b):
    if isinstance(o, str):
        return o.replace(a, b)
    if isinstance(o, list):
        return [_rename(x, a, b) for x in o]
    if isinstance(o, dict):
        return {k: _rename(v, a, b) for k, v in o.items()}
    return o


# (computed at import, outside CrossHair's tracing: a lazily filled cache makes paths non-deterministic)
IDENT_BASE = {ti: run(t.replace("{N}", "zz")) for ti, t in enumerate(IDENT_TEMPLATES)}


def c_ident_rel(ni: int, ti: int) -> bool:
    """
    C06: identifier #ni (letters, digits, _ $ # @ -, mixed case, delimited forms containing '#')
    at the name position of template #ti is reported verbatim: the result equals the result for the
    neutral name `zz` with `zz` renamed - nothing else changes, nothing is cut, lost or added.

    pre: 0 <= ni < NIN and 0 <= ti < NIT
    post: _
    """
    try:
        got = run(IDENT_TEMPLATES[ti].replace("{N}", IDENT_NAMES[ni]))
    except Exception:
        return False
    return got == _rename(IDENT_BASE[ti], "zz", IDENT_NAMES[ni])


def api_c_ident_rel(ni, ti):
    from simple_ddl_parser import DDLParser
    base = DDLParser(IDENT_TEMPLATES[ti].replace("{N}", "zz")).run()
    ddl = IDENT_TEMPLATES[ti].replace("{N}", IDENT_NAMES[ni])
    try:
        got = DDLParser(ddl).run()
    except Exception as e:
        got = f"{type(e).__name__}: {e}"
    want = _rename(base, "zz", IDENT_NAMES[ni])
    return {"ddl": ddl, "got": got, "expected": want, "reproduced": got != want}


# ------------------------------------------------------------------ C18: entity names, relational ----
ENT_TEMPLATES = ["CREATE TYPE {N} AS ENUM ('a');", "CREATE SCHEMA {N};", "CREATE DOMAIN {N} AS varchar(3);", "CREATE DATABASE {N};", "CREATE TABLESPACE {N};",
                 "CREATE SCHEMA IF NOT EXISTS {N};", "CREATE TYPE s.{N} AS ENUM ('a', 'b');"]
ENT_NAMES = ["ARRAY_KIND", "ARRAYS", "serial#", "UserName", "a$b", "_x", "ZZ", "x1", "Table1", "keys"]
N_ENT_T, N_ENT_N = len(ENT_TEMPLATES), len(ENT_NAMES)
ENT_BASE = {ti: run(t.replace("{N}", "zz")) for ti, t in enumerate(ENT_TEMPLATES)}


def c_entity_name(ni: int, ti: int) -> bool:
    """
    C18: a type / schema / domain / database / tablespace named with catalogued name #ni (names
    starting with the type word ARRAY, '#', '$', mixed case, keyword-like) yields exactly the entity
    the neutral name `zz` yields, renamed - one entity, name as written.

    pre: 0 <= ni < N_ENT_N and 0 <= ti < N_ENT_T
    post: _
    """
    try:
        got = run(ENT_TEMPLATES[ti].replace("{N}", ENT_NAMES[ni]))
    except Exception:
        return False
    return len(ENT_BASE[ti]) == 1 and got == _rename(ENT_BASE[ti], "zz", ENT_NAMES[ni])


def api_c_entity_name(ni, ti):
    from simple_ddl_parser import DDLParser
    base = DDLParser(ENT_TEMPLATES[ti].replace("{N}", "zz")).run()
    ddl = ENT_TEMPLATES[ti].replace("{N}", ENT_NAMES[ni])
    try:
        got = DDLParser(ddl).run()
    except Exception as e:
        got = f"{type(e).__name__}: {e}"
    want = _rename(base, "zz", ENT_NAMES[ni])
    return {"ddl": ddl, "got": got, "expected": want, "reproduced": got != want}


# ------------------------------------------------------------------ C10: the text handed to the parser does not depend on the mode ----
MODE_TEXTS = [
    "CREATE TABLE t (a int, b varchar(10) NOT NULL DEFAULT 'x', PRIMARY KEY (a));",
    "CREATE TABLE s.t (`order#` int, `b` varchar(10), c int);",
    "CREATE TABLE t (a int, b varchar(9) DEFAULT '#fff', c int);",
    "CREATE TABLE t (\n  a int, -- first\n  b int,\n  c int\n);",
    "# a note\nCREATE TABLE t (a int, b int);\n/* block */\nCREATE INDEX i ON t (a DESC, b);",
    "CREATE TABLE s.t (a int, b int);\nALTER TABLE s.t ADD CONSTRAINT fk FOREIGN KEY (a) REFERENCES o (x);\nALTER TABLE s.t ADD c int;\nALTER TABLE s.t ADD d int;",
    "CREATE TABLE t (a int, b int);\nALTER TABLE t ADD c int;\nALTER TABLE t DROP COLUMN a;\nALTER TABLE t ADD e varchar(3);",
    "CREATE TABLE t (a int CHECK (a > 0), b int UNIQUE, serial# int);",
    "CREATE SEQUENCE s.q START 1 INCREMENT BY 2;\nCREATE TABLE t (a int);",
    "CREATE TYPE e AS ENUM ('a', 'b');\nCREATE SCHEMA sc;\nCREATE TABLE sc.t (v e, w int);",
    "CREATE TABLE t (a int, b int, CONSTRAINT c1 UNIQUE (a, b));",
    "DROP TABLE s.old;\nCREATE TABLE t (a int);",
]
NMT = len(MODE_TEXTS)
ALL_MODES = ["sql", "redshift", "spark_sql", "mysql", "bigquery", "mssql", "databricks", "sqlite", "vertics", "ibm_db2", "postgres", "oracle", "hql", "snowflake", "athena"]
COMMON_T = ["table_name", "primary_key", "alter", "checks", "index", "partitioned_by", "tablespace", "constraints"]
COMMON_C = ["name", "type", "size", "references", "unique", "nullable", "default", "check"]
MODE_BASE = {}  # filled at import, below


def _bq(o):
    """BigQuery presentation: schema is called dataset (recursively, e.g. in references)"""
    if isinstance(o, dict):
        return {("schema" if k == "dataset" else k): _bq(v) for k, v in o.items()}
    if isinstance(o, list):
        return [_bq(x) for x in o]
    return o


def _common_view(res):
    out = []
    for e in res:
        e = _bq(e)
        if isinstance(e, dict) and "table_name" in e and "columns" in e:
            v = {k: e.get(k) for k in COMMON_T}
            # index entries: `clustered` is dialect presentation (reported in mssql mode only), as in harness/c10.py
            v["index"] = [{k: x for k, x in i.items() if k != "clustered"} for i in (e.get("index") or [])]
            v["schema"] = e.get("schema")
            v["columns"] = [{k: c.get(k) for k in COMMON_C} for c in e["columns"]]
            out.append(v)
        else:
            out.append(e)
    return out


MODE_BASE.update({si: _common_view(run(t, "sql")) for si, t in enumerate(MODE_TEXTS)})


def _covers(m, b) -> bool:
    """mode view vs default view: equal, except that a column record (a dict with name and type, e.g. inside the alter
    section) may carry additional dialect attributes (oracle: encrypt, redshift: encode) - per-dialect column extras are
    presentation; every attribute of the default view must be there with the same value"""
    if isinstance(b, dict) and isinstance(m, dict):
        column_like = "name" in b and "type" in b
        if not column_like and set(m) != set(b):
            return False
        return all(k in m and _covers(m[k], v) for k, v in b.items())
    if isinstance(b, list) and isinstance(m, list):
        return len(m) == len(b) and all(_covers(x, y) for x, y in zip(m, b))
    return type(m) is type(b) and m == b


def c_mode_text(mi: int, si: int) -> bool:
    """
    C10 end to end: catalogued script #si parsed with output mode #mi yields the same entities in
    the same order with the same common fields as with the default mode, and does not raise -
    whatever the text contains ('#' in names and literals, comments, ALTER sequences).

    pre: 0 <= mi < 15 and 0 <= si < NMT
    post: _
    """
    try:
        got = run(MODE_TEXTS[si], ALL_MODES[mi])
    except Exception:
        return False
    return _covers(_common_view(got), MODE_BASE[si])


def api_c_mode_text(mi, si):
    from simple_ddl_parser import DDLParser
    ddl = MODE_TEXTS[si]
    base = _common_view(DDLParser(ddl).run())
    try:
        got = _common_view(DDLParser(ddl).run(output_mode=ALL_MODES[mi]))
    except Exception as e:
        got = f"{type(e).__name__}: {e}"
    return {"ddl": ddl, "mode": ALL_MODES[mi], "common_view_in_mode": got, "common_view_default": base, "reproduced": not _covers(got, base)}


# ------------------------------------------------------------------ C17: sequences next to each other ----------
SEQ_NAMES = ["q", "Q", '"q"', "s.q", "S.Q", 's."Q"', "[q]", "s.[q]", "qq"]
SEQ_OPTS = ["START 1", "INCREMENT BY 2 MINVALUE 0", "NO MAXVALUE CACHE", "MAXVALUE 9223372036854775807 NOORDER", "START WITH -5 CACHE 10 ORDER", ""]
SEQ_BETWEEN = ["", "CREATE TABLE q (a int);", "CREATE TABLE s.q (increment int, start int);"]
NSN, NSO, NSB = len(SEQ_NAMES), len(SEQ_OPTS), len(SEQ_BETWEEN)
SEQ_N1 = env_int("VF_SEQ_N1", -1)
SEQ_QUICK = env_int("VF_SEQ_QUICK", 0)


def _seq_stmt(n, o):
    return ("CREATE SEQUENCE " + SEQ_NAMES[n] + " " + SEQ_OPTS[o]).strip() + ";"


SEQ_ALONE = {(n, o): run(_seq_stmt(n, o)) for n in range(NSN) for o in range(NSO)}
SEQ_BETWEEN_ALONE = [run(b) if b else [] for b in SEQ_BETWEEN]


def c_seq_pair(n1: int, o1: int, n2: int, o2: int, b: int) -> bool:
    """
    C17: two CREATE SEQUENCE statements (names that may differ only in letter case, quoting or
    schema; option sets from the catalogue), optionally with a table of the same name between
    them: the script yields exactly what each statement yields alone, in order - no option of
    one sequence shows up in the other or in the table, no entry is merged or dropped.

    pre: 0 <= n1 < NSN and 0 <= n2 < NSN and 0 <= o1 < NSO and 0 <= o2 < NSO and 0 <= b < NSB
    pre: SEQ_N1 < 0 or n1 == SEQ_N1
    pre: SEQ_QUICK == 0 or (o2 in (0, 1, 4) and b != 1)
    post: _
    """
    text = "\n".join(x for x in (_seq_stmt(n1, o1), SEQ_BETWEEN[b], _seq_stmt(n2, o2)) if x)
    return run(text) == SEQ_ALONE[(n1, o1)] + SEQ_BETWEEN_ALONE[b] + SEQ_ALONE[(n2, o2)]


def api_c_seq_pair(n1, o1, n2, o2, b):
    from simple_ddl_parser import DDLParser
    parts = [x for x in (_seq_stmt(n1, o1), SEQ_BETWEEN[b], _seq_stmt(n2, o2)) if x]
    text = "\n".join(parts)
    got = DDLParser(text).run()
    want = []
    for x in parts:
        want += DDLParser(x).run()
    return {"ddl": text, "got": got, "expected": want, "reproduced": got != want}


# ------------------------------------------------------------------ C02: CHECK expressions, every declaration form ----
CHECK_EXPRS = ["a > 0", "length(b) > 3", "my.fn(a) > 1", "a <> 3", "a >= 0 and a <= 10", "coalesce(a, 0) < 10", "a < 5"]
# (not in the catalogue - these do not parse at the pinned commit in any form and are listed in DESIGN.md as observed limits:
#  `a > 0 AND length(b) < 5`, `length(b) < 5 and a > 1`, `(a + 1) * 2 > b`, `b LIKE 'x%'`, `upper(b) = 'X'`)
CHECK_FORMS = [
    ("inline", "CREATE TABLE t (a int CHECK ({E}), b varchar(9));", lambda r: (r[0]["columns"][0]["check"], [r[0]["columns"][1]["check"], r[0]["checks"], r[0]["alter"]])),
    ("table-level named", "CREATE TABLE t (a int, b varchar(9), CONSTRAINT c CHECK ({E}));",
     lambda r: (r[0]["checks"][0]["statement"] if len(r[0]["checks"]) == 1 and r[0]["checks"][0]["constraint_name"] == "c" else None, [c["check"] for c in r[0]["columns"]] + [r[0]["alter"]])),
    ("table-level unnamed", "CREATE TABLE t (a int, b varchar(9), CHECK ({E}));",
     lambda r: (r[0]["checks"][0]["statement"] if len(r[0]["checks"]) == 1 else None, [c["check"] for c in r[0]["columns"]] + [r[0]["alter"]])),
    ("ALTER ADD CHECK", "CREATE TABLE t (a int, b varchar(9));\nALTER TABLE t ADD CHECK ({E});",
     lambda r: (r[0]["alter"]["checks"][0]["statement"] if len(r[0]["alter"].get("checks", [])) == 1 else None, [c["check"] for c in r[0]["columns"]] + [r[0]["checks"]])),
    ("ALTER ADD CONSTRAINT CHECK", "CREATE TABLE t (a int, b varchar(9));\nALTER TABLE t ADD CONSTRAINT c CHECK ({E});",
     lambda r: (r[0]["alter"]["checks"][0]["statement"] if len(r[0]["alter"].get("checks", [])) == 1 and r[0]["alter"]["checks"][0]["constraint_name"] == "c" else None,
                [c["check"] for c in r[0]["columns"]] + [r[0]["checks"]])),
]
NCE, NCF = len(CHECK_EXPRS), len(CHECK_FORMS)


def _check_ok(res, ei, fi) -> bool:
    try:
        if not isinstance(res, list) or len(res) != 1 or [c["name"] for c in res[0]["columns"]] != ["a", "b"]:
            return False
        where, elsewhere = CHECK_FORMS[fi][2](res)
    except Exception:
        return False
    return where is not None and squeeze(where) == squeeze(CHECK_EXPRS[ei]) and all(not x for x in elsewhere)


def c_check_expr(ei: int, fi: int) -> bool:
    """
    C02: CHECK expression #ei (comparisons with < > <> >= <=, function calls before the comparison,
    schema-qualified functions, and / AND) declared in form #fi (inline, table-level named /
    unnamed, ALTER TABLE ADD [CONSTRAINT c] CHECK): reported exactly once, in the place of its
    form, with its text (blank-insensitive) and constraint name; nowhere else.

    pre: 0 <= ei < NCE and 0 <= fi < NCF
    post: _
    """
    try:
        res = run(CHECK_FORMS[fi][1].replace("{E}", CHECK_EXPRS[ei]))
    except Exception:
        return False
    return _check_ok(res, ei, fi)


def api_c_check_expr(ei, fi):
    from simple_ddl_parser import DDLParser
    ddl = CHECK_FORMS[fi][1].replace("{E}", CHECK_EXPRS[ei])
    try:
        got = DDLParser(ddl).run()
    except Exception as e:
        return {"ddl": ddl, "raised": f"{type(e).__name__}: {e}", "reproduced": True}
    return {"ddl": ddl, "form": CHECK_FORMS[fi][0], "expected_check": CHECK_EXPRS[ei], "got": got, "reproduced": not _check_ok(got, ei, fi)}


# ------------------------------------------------------------------ C11 ----------------------
_CL = json.load(open(os.path.join(CAT, "clauses.json")))
BODY = _CL["body"]
CLAUSES = _CL["clauses"]
NCL = len(CLAUSES)
MODE = env("VF_MODE", "sql")
C1 = env_int("VF_C1", -1)
BASE = {}


def _base(mode):
    if mode not in BASE:
        BASE[mode] = run(BODY + ";", mode)[0]
    return BASE[mode]


for _m in {"sql", MODE}:
    _base(_m)
COMMON = ["table_name", "schema", "primary_key", "columns", "checks", "index", "alter"]


def _merge(a, b):
    out = deepcopy(a)
    for k, v in b.items():
        if k == "table_properties" and k in out:
            out[k] = dict(out[k], **v)
        else:
            out[k] = v
    return out


def compatible(i1: int, i2: int) -> bool:
    """two clauses of the same dialect (or a generic COMMENT) that write different keys"""
    k1, k2 = set(CLAUSES[i1]["keys"]), set(CLAUSES[i2]["keys"])
    same_dialect = CLAUSES[i1]["mode"] == CLAUSES[i2]["mode"] or "COMMENT" in CLAUSES[i1]["clause"] or "COMMENT" in CLAUSES[i2]["clause"]
    return same_dialect and not (k1 & k2)


def kf_oracle_organization_last(i1: int, i2: int) -> bool:
    """known finding C11/organization-index-after-tablespace: ORGANIZATION INDEX written after
    TABLESPACE ts / STORAGE (...) is swallowed by the tablespace / storage properties: table lost"""
    return CLAUSES[i2]["clause"] == "ORGANIZATION INDEX" and CLAUSES[i1]["clause"].split()[0] in ("TABLESPACE", "STORAGE")


def c_clauses(i1: int, i2: int) -> bool:
    """
    C11 (default mode): a table followed by two compatible dialect clauses in this order: both
    clauses' keys are reported with the catalogued values, nothing else about the table changes.

    pre: 0 <= i1 < NCL and 0 <= i2 < NCL and i1 != i2
    pre: C1 < 0 or i1 == C1
    pre: compatible(i1, i2)
    pre: not kf_oracle_organization_last(i1, i2)
    post: _
    """
    res = run(f"{BODY} {CLAUSES[i1]['clause']} {CLAUSES[i2]['clause']};")
    if not isinstance(res, list) or len(res) != 1:
        return False
    want = _merge(_merge(_base("sql"), CLAUSES[i1]["sql_extras"]), CLAUSES[i2]["sql_extras"])
    return res[0] == want


BODYQ = BODY.replace("CREATE TABLE t ", "CREATE TABLE sales.t ")
BASEQ = {}


def c_clause_mode(i: int, qualified: bool) -> bool:
    """
    C11 (owning mode): each clause owned by mode MODE alone after the table (plain or schema-
    qualified table name - the clause's value must not depend on it): its documented keys
    at top level with the catalogued values, common fields equal to the clause-free table's.

    pre: 0 <= i < NCL
    pre: CLAUSES[i]["mode"] == MODE
    post: _
    """
    res = run(f"{BODYQ if qualified else BODY} {CLAUSES[i]['clause']};", MODE)
    if not isinstance(res, list) or len(res) != 1:
        return False
    if qualified and MODE not in BASEQ:
        BASEQ[MODE] = run(BODYQ + ";", MODE)[0]
    t, b = res[0], (BASEQ[MODE] if qualified else _base(MODE))
    for k in CLAUSES[i]["top_level_in_owning_mode"]:
        if k not in t or t[k] != CLAUSES[i]["keys"][k]:
            return False
    for k in COMMON:
        if k == "columns":
            if [{f: c[f] for f in PLAIN_P} for c in t[k]] != [{f: c[f] for f in PLAIN_P} for c in b[k]]:
                return False
        elif t.get(k) != b.get(k):
            return False
    return True


def api_c_clauses(i1, i2):
    from simple_ddl_parser import DDLParser
    ddl = f"{BODY} {CLAUSES[i1]['clause']} {CLAUSES[i2]['clause']};"
    got = DDLParser(ddl).run()
    want = _merge(_merge(DDLParser(BODY + ";").run()[0], CLAUSES[i1]["sql_extras"]), CLAUSES[i2]["sql_extras"])
    return {"ddl": ddl, "got": got, "expected": [want], "reproduced": got != [want]}


def api_c_clause_mode(i, qualified):
    from simple_ddl_parser import DDLParser
    ddl = f"{BODYQ if qualified else BODY} {CLAUSES[i]['clause']};"
    got = DDLParser(ddl).run(output_mode=MODE)
    ok = bool(got) and all(k in got[0] and got[0][k] == CLAUSES[i]["keys"][k] for k in CLAUSES[i]["top_level_in_owning_mode"])
    return {"ddl": ddl, "mode": MODE, "got": got, "expected_keys": {k: CLAUSES[i]["keys"][k] for k in CLAUSES[i]["top_level_in_owning_mode"]}, "reproduced": not ok}


# ------------------------------------------------------------------ C18 ----------------------
_EN = json.load(open(os.path.join(CAT, "entities.json")))["statements"]
NEN = len(_EN)
E1 = env_int("VF_E1", -1)
T1 = "CREATE TABLE t1 (a int, b s.ty NOT NULL);"
T2 = "CREATE TABLE t2 (c ty2, d varchar(3));"
T1_RES = run(T1)
T2_RES = run(T2)


def c_entity(e1: int, e2: int, ctx: int) -> bool:
    """
    C18: entity statements #e1 and #e2 (types, domains, schemas, databases, tablespaces) alone,
    after a table, between two tables or before a table (ctx): each yields exactly its
    catalogued entity, in order, and the tables - whose columns use such types - are unchanged.

    pre: 0 <= e1 < NEN and 0 <= e2 < NEN
    pre: E1 < 0 or e1 == E1
    pre: 0 <= ctx <= 3
    post: _
    """
    s1, s2 = _EN[e1]["stmt"], _EN[e2]["stmt"]
    if ctx == 0:
        text, want = [s1, s2], _EN[e1]["alone"] + _EN[e2]["alone"]
    elif ctx == 1:
        text, want = [T1, s1, s2], T1_RES + _EN[e1]["alone"] + _EN[e2]["alone"]
    elif ctx == 2:
        text, want = [T1, s1, T2, s2], T1_RES + _EN[e1]["alone"] + T2_RES + _EN[e2]["alone"]
    else:
        text, want = [s1, s2, T2], _EN[e1]["alone"] + _EN[e2]["alone"] + T2_RES
    return run("\n".join(text)) == want


def api_c_entity(e1, e2, ctx):
    from simple_ddl_parser import DDLParser
    s1, s2 = _EN[e1]["stmt"], _EN[e2]["stmt"]
    t1, t2 = DDLParser(T1).run(), DDLParser(T2).run()
    if ctx == 0:
        text, want = [s1, s2], _EN[e1]["alone"] + _EN[e2]["alone"]
    elif ctx == 1:
        text, want = [T1, s1, s2], t1 + _EN[e1]["alone"] + _EN[e2]["alone"]
    elif ctx == 2:
        text, want = [T1, s1, T2, s2], t1 + _EN[e1]["alone"] + t2 + _EN[e2]["alone"]
    else:
        text, want = [s1, s2, T2], _EN[e1]["alone"] + _EN[e2]["alone"] + t2
    ddl = "\n".join(text)
    got = DDLParser(ddl).run()
    return {"ddl": ddl, "got": got, "expected": want, "reproduced": got != want}


# ------------------------------------------------------------------ C13 through the pipeline --
GSTMTS = ["CREATE TABLE t1 (a int);", "CREATE SEQUENCE q START 1;", "CREATE TYPE ty AS ENUM ('a');", "CREATE DOMAIN d AS varchar(3);", "CREATE SCHEMA sc;",
          "CREATE DATABASE db;", "CREATE TABLESPACE ts;", "SET x = 1;", "SET ANSI_NULLS ON;", "SET hive.exec.parallel;", "SET y 2 ;", "DROP TABLE old;",
          "CREATE TABLE t2 (b int); -- note", "GO",
          # entities that carry a clause naming another kind of object
          "CREATE DATABASE db2 TABLESPACE ts2;", "CREATE SCHEMA sc2 TABLESPACE ts3;", "CREATE TABLE t3 (c int) TABLESPACE ts4;", "CREATE DATABASE db3 COMMENT 'x';",
          # further commented statements: the same comment text again, and another text (comments A, B, A in one script)
          "CREATE TABLE t4 (d int); -- note", "CREATE SEQUENCE q2 START 1; -- other"]
# the bucket the statement's entity belongs to: decided by the statement, not by the keys of what came out
GKINDS = ["tables", "sequences", "types", "domains", "schemas", "databases", "tablespaces", "ddl_properties", "ddl_properties", "ddl_properties", "ddl_properties",
          "tables", "tables", None, "databases", "schemas", "tables", "databases", "tables", "sequences"]
NG = len(GSTMTS)
assert len(GKINDS) == NG
GRP_BUCKETS = ["tables", "types", "sequences", "domains", "schemas", "ddl_properties", "tablespaces", "databases"]


def _regroup_ok(flat, grouped) -> bool:
    if not isinstance(flat, list) or not isinstance(grouped, dict):
        return False
    for b in ("tables", "types", "sequences", "domains", "schemas", "ddl_properties"):
        if not isinstance(grouped.get(b), list):
            return False
    ents = [e for e in flat if not (isinstance(e, dict) and list(e.keys()) == ["comments"])]
    comments = [c for e in flat if isinstance(e, dict) and list(e.keys()) == ["comments"] for c in e["comments"]]
    bucketed = [e for b, lst in grouped.items() if b != "comments" for e in lst]
    if len(bucketed) != len(ents) or any(e not in bucketed for e in ents):
        return False
    # relative order inside every bucket follows the flat order
    for b, lst in grouped.items():
        if b == "comments":
            continue
        idx = [ents.index(e) for e in lst]
        if idx != sorted(idx):
            return False
    return grouped.get("comments", []) == comments


def _kinds_ok(grouped, gs) -> bool:
    """every bucket holds as many entities as the script has statements of that kind (each statement yields one)"""
    for b in GRP_BUCKETS:
        want = len([g for g in gs if GKINDS[g] == b])
        if len(grouped.get(b, [])) != want:
            return False
    return True


def c_group_pipe(g1: int, g2: int, g3: int) -> bool:
    """
    C13 end to end: three catalogued statements (entity kinds, four SET spellings, DROP TABLE, a
    commented table, a skipped line, entities carrying a TABLESPACE / COMMENT clause - symbolic
    indices): every entity of the flat result is in exactly one bucket of the grouped result,
    unchanged, order kept; each bucket holds exactly the entities of the statements of its kind;
    comments gathered.

    pre: 0 <= g1 < NG and 0 <= g2 < NG and 0 <= g3 < NG
    pre: g1 != g2 and g2 != g3 and g1 != g3
    pre: G1 < 0 or g1 == G1
    pre: GQUICK == 0 or (g2 in GQUICK_SET and g3 in GQUICK_SET)
    post: _
    """
    text = "\n".join([GSTMTS[g1], GSTMTS[g2], GSTMTS[g3], ""])
    grouped = run(text, group_by_type=True)
    return _regroup_ok(run(text), grouped) and _kinds_ok(grouped, (g1, g2, g3))


G1 = env_int("VF_G1", -1)
GQUICK = env_int("VF_GQUICK", 0)
GQUICK_SET = (0, 1, 4, 5, 6, 7, 9, 11, 12, 14, 15, 16, 18, 19)


def api_c_group_pipe(g1, g2, g3):
    from simple_ddl_parser import DDLParser
    text = "\n".join([GSTMTS[g1], GSTMTS[g2], GSTMTS[g3], ""])
    flat, grouped = DDLParser(text).run(), DDLParser(text).run(group_by_type=True)
    return {"ddl": text, "flat": flat, "grouped": grouped, "expected_bucket_of_each_statement": [GKINDS[g] for g in (g1, g2, g3)],
            "reproduced": not (_regroup_ok(flat, grouped) and _kinds_ok(grouped, (g1, g2, g3)))}


# ------------------------------------------------------------------ C05 statement-level case ---
# keywords to re-case are marked «LIKE THIS»; type names, identifiers and values (CASCADE, ASC / DESC - see the
# recorded finding asc-desc-lowercase; ENUM / BIGFILE are reported as written; AUTHORIZATION and CHARSET - recorded finding
# case-sensitive-id-keywords) keep their spelling
CASE_STMTS = [
    "«CREATE» «TABLE» t (a INT «IDENTITY»(1,1) «NOT» «NULL», b VARCHAR(10) «DEFAULT» 'x' «PRIMARY» «KEY», c INT «REFERENCES» o (x) «ON» «DELETE» CASCADE);",
    "«CREATE» «TABLE» «IF» «NOT» «EXISTS» s.t (a INT, b INT, «CONSTRAINT» k «PRIMARY» «KEY» (a, b), «CONSTRAINT» u «UNIQUE» (b), «FOREIGN» «KEY» (a) «REFERENCES» o (x));",
    "«CREATE» «TABLE» t (a INT «CHECK» (a > 1), b INT «GENERATED» «ALWAYS» «AS» (a * 2) «STORED», c INT «UNIQUE» «NULL»);",
    "«CREATE» «TABLE» t (a INT) «PARTITIONED» «BY» (d STRING) «STORED» «AS» PARQUET «LOCATION» 's3://x';",
    "«CREATE» «TABLE» t (a INT) «ENGINE»=InnoDB «AUTO_INCREMENT»=7 «DEFAULT» CHARSET=utf8;",
    "«CREATE» «TABLE» t (a INT) «TABLESPACE» ts1;",
    "«CREATE» «TEMPORARY» «TABLE» t (a INT, b INT «ENCODE» zstd) «DISTSTYLE» KEY;",
    "«CREATE» «OR» «REPLACE» «TABLE» t (a INT) «CLUSTER» «BY» (a);",
    "CREATE TABLE t (a INT, b INT);\n«ALTER» «TABLE» t «ADD» «CONSTRAINT» c «FOREIGN» «KEY» (a) «REFERENCES» o (x) «ON» «UPDATE» CASCADE;",
    "CREATE TABLE t (a INT, b INT);\n«ALTER» «TABLE» t «DROP» «COLUMN» a;\n«ALTER» «TABLE» t «RENAME» «COLUMN» b «TO» c;\n«ALTER» «TABLE» t «MODIFY» «COLUMN» c VARCHAR(5);",
    "CREATE TABLE t (a INT, b INT);\n«CREATE» «UNIQUE» «INDEX» i «ON» t (a DESC, b ASC);",
    "«CREATE» «SEQUENCE» s.q «INCREMENT» «BY» 2 «START» «WITH» 5 «MINVALUE» 1 «NO» «MAXVALUE» «CACHE» 10 «NOORDER»;",
    "«CREATE» «TYPE» ty «AS» ENUM ('a', 'b');",
    "«CREATE» «SCHEMA» «IF» «NOT» «EXISTS» sc;",
    "«CREATE» BIGFILE «TEMPORARY» «TABLESPACE» ts;",
    "«DROP» «TABLE» s.t;",
]
NCS = len(CASE_STMTS)


def _recase(stmt: str, style: int) -> str:
    out = []
    for i, part in enumerate(stmt.split("«")):
        if i == 0:
            out.append(part)
            continue
        w, rest = part.split("»", 1)
        out.append((w if style == 0 else w.lower() if style == 1 else w.capitalize()) + rest)
    return "".join(out)


def c_case_stmt(si: int, style: int) -> bool:
    """
    C05 end to end: a catalogued statement with every keyword in lower case (style 1) or
    Capitalized (style 2) yields exactly what its upper-case spelling yields.

    pre: 0 <= si < NCS
    pre: 1 <= style <= 2
    post: _
    """
    return run(_recase(CASE_STMTS[si], style)) == CASE_UPPER[si] and bool(CASE_UPPER[si])


CASE_UPPER = [run(_recase(s_, 0)) for s_ in CASE_STMTS]


def api_c_case_stmt(si, style):
    from simple_ddl_parser import DDLParser
    ddl = _recase(CASE_STMTS[si], style)
    up = _recase(CASE_STMTS[si], 0)
    got, want = DDLParser(ddl).run(), DDLParser(up).run()
    return {"ddl": ddl, "ddl_upper": up, "got": got, "expected": want, "reproduced": got != want}


# ------------------------------------------------------------------ C06 normalize_names, end to end
NORM_STMTS = [
    'CREATE TABLE "s"."t" ("id" int, qty int CHECK (qty > 0), `sku` int NOT NULL, [w] int, PRIMARY KEY ("id", `sku`), UNIQUE ([w]));',
    'CREATE TABLE [dbo].[T] ([a] int PRIMARY KEY, [b] int, CONSTRAINT [uq] UNIQUE ([a], [b]), CONSTRAINT [fk] FOREIGN KEY ([b]) REFERENCES [dbo].[o] ([x]));',
    'CREATE TABLE "t" ("a" int, "b" int REFERENCES "o" ("x"), UNIQUE KEY "key" ("a", "b"));',
    'CREATE TABLE t ("a" int, b int);\nALTER TABLE t ADD CONSTRAINT "c" FOREIGN KEY ("a") REFERENCES "o" ("x");\nCREATE UNIQUE INDEX "i" ON t ("a" DESC, b);',
    'CREATE SEQUENCE "s"."q" START 1;',
    'CREATE TYPE "s"."ty" AS ENUM (\'a\');',
    # delimited names that spell SQL words, inside ALTER statements (nothing but the delimiters tells the lexer they are names)
    "CREATE TABLE [dbo].[events] ([id] int, [type] int, [key] int, [note] int);\nALTER TABLE [dbo].[events] DROP COLUMN [type];",
    "CREATE TABLE [dbo].[events] ([id] int, [key] int);\nALTER TABLE [dbo].[events] ADD CONSTRAINT [uq_key] UNIQUE ([key]);",
    "CREATE TABLE [dbo].[events] ([id] int, [note] int);\nALTER TABLE [dbo].[events] RENAME COLUMN [note] TO [comment];",
    "CREATE TABLE `events` (`id` int, `key` int);\nALTER TABLE `events` ADD CONSTRAINT `df` DEFAULT 0 FOR `key`;",
    "CREATE TABLE [e] ([id] int);\nALTER TABLE [e] ADD [index] int;",
    "CREATE TABLE [e] ([id] int, [table] int);\nALTER TABLE [e] MODIFY COLUMN [table] varchar(3);",
]
NNS = len(NORM_STMTS)


def _strip_delims(x):
    if isinstance(x, str):
        for o, c in (('"', '"'), ("[", "]"), ("`", "`")):
            if len(x) > 2 and x.startswith(o) and x.endswith(c):
                return x[1:-1]
        return x
    if isinstance(x, list):
        return [_strip_delims(v) for v in x]
    if isinstance(x, dict):
        return {k: _strip_delims(v) for k, v in x.items()}
    return x


def c_norm_pipe(si: int) -> bool:
    """
    C06 end to end: with normalize_names=True the only difference in the whole output of a
    catalogued statement (delimited names in every naming position, a CHECK before the key list,
    constraints, foreign keys, ALTER, index, sequence, type) is that each identifier loses its one
    pair of outer delimiters.

    pre: 0 <= si < NNS
    post: _
    """
    PARSER.normalize_names = False
    plain = run(NORM_STMTS[si])
    PARSER.normalize_names = True
    try:
        normed = run(NORM_STMTS[si])
    finally:
        PARSER.normalize_names = False
    return bool(plain) and normed == _strip_delims(plain)


def api_c_norm_pipe(si):
    from simple_ddl_parser import DDLParser
    plain = DDLParser(NORM_STMTS[si]).run()
    normed = DDLParser(NORM_STMTS[si], normalize_names=True).run()
    return {"ddl": NORM_STMTS[si], "normalize_names=True": normed, "expected": _strip_delims(plain), "reproduced": normed != _strip_delims(plain)}
