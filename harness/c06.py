"""C06.norm / C06.copy — the single `id` production and the actions that copy names."""
from harness._common import PARSER, call_action, env_int

OPEN = ["", '"', "`", "["]
CLOSE = ["", '"', "`", "]"]
MAXB = env_int("VF_MAXB", 2)


def c_norm(body: str, delim: int, norm: bool) -> bool:
    """
    p_id: with normalize_names=False the identifier is returned untouched; with True exactly
    its one pair of outer delimiters is removed, characters and case unchanged.

    pre: 1 <= len(body) <= MAXB
    pre: 0 <= delim <= 3
    pre: all(c not in OPEN[1:] + CLOSE[1:] for c in body)
    post: _
    """
    s = OPEN[delim] + body + CLOSE[delim]
    PARSER.normalize_names = norm
    try:
        out = call_action("p_id", [s])
    finally:
        PARSER.normalize_names = False
    if not norm:
        return out == s
    # stated as "re-wrapping gives back the input" (CrossHair 0.0.110 mis-evaluates `x[1:-1] == body`
    # on a concatenated symbolic string: spurious counterexamples; this form is exact)
    return OPEN[delim] + out + CLOSE[delim] == s and len(out) == len(body)


def api_c_norm(body, delim, norm):
    from simple_ddl_parser import DDLParser
    if not body.replace("_", "a").isalnum() or not body.isascii():
        body = "".join(c if (c.isalnum() and c.isascii()) else "x" for c in body)
    s = OPEN[delim] + body + CLOSE[delim]
    ddl = f"CREATE TABLE {s} ( {s} int , PRIMARY KEY ( {s} ) ) ;"
    r = DDLParser(ddl, normalize_names=norm).run()
    want = body if norm else s
    ok = bool(r) and r[0]["table_name"] == want and r[0]["columns"][0]["name"] == want and r[0]["primary_key"] == [want]
    return {"ddl": ddl, "normalize_names": norm, "got": r, "expected_name": want, "reproduced": not ok}


def c_copy(a: str, b: str, c: str, form: int) -> bool:
    """
    Names are copied, not rebuilt: t_name / seq_name / type_name / constraint / pid hand on the
    very strings they were given.

    pre: len(a) <= 3 and len(b) <= 3 and len(c) <= 3
    pre: 0 <= form <= 5
    post: _
    """
    if form == 0:
        out = call_action("p_t_name", [a, ".", b])
        return out["schema"] is a and out["table_name"] is b
    if form == 1:
        out = call_action("p_t_name", [a])
        return out["schema"] is None and out["table_name"] is a
    if form == 2:
        out = call_action("p_seq_name", [None, a, ".", b])
        return out["schema"] is a and out["sequence_name"] is b
    if form == 3:
        out = call_action("p_constraint", ["CONSTRAINT", a])
        return out == {"constraint": {"name": a}} and out["constraint"]["name"] is a
    if form == 4:
        out = call_action("p_pid", [call_action("p_pid", [call_action("p_pid", [a]), ",", b]), ",", c])
        return len(out) == 3 and out[0] is a and out[1] is b and out[2] is c
    out = call_action("p_type_name", [None, a, ".", b, "AS"])
    return out["schema"] is a and out["type_name"] is b


def _mutables(x, acc):
    if isinstance(x, dict):
        acc.append(id(x))
        for v in x.values():
            _mutables(v, acc)
    elif isinstance(x, list):
        acc.append(id(x))
        for v in x:
            _mutables(v, acc)
    return acc


def c_fresh(a: str, b: str, form: int) -> bool:
    """
    C14 / C03: the actions that build an entity skeleton hand out fresh accumulators: two calls
    never share a list or dict (a shared `columns` list would let an ALTER on one table show up
    in another table, another run or an already returned result).

    pre: len(a) <= 2 and len(b) <= 2
    pre: "." not in a and "." not in b
    pre: 0 <= form <= 4
    post: _
    """
    if form == 0:
        x, y = call_action("p_t_name", [a]), call_action("p_t_name", [b])
    elif form == 1:
        x, y = call_action("p_t_name", [a, ".", b]), call_action("p_t_name", [b, ".", a])
    elif form == 2:
        x = call_action("p_expression_domain_as", [call_action("p_domain_name", ["CREATE", "DOMAIN", a, "AS"]), "varchar", "(", ["3"], ")"])
        y = call_action("p_expression_domain_as", [call_action("p_domain_name", ["CREATE", "DOMAIN", b, "AS"]), "ENUM", "(", ["'p'"], ")"])
        if x.get("properties") != {} or y.get("properties") != {"values": ["'p'"]}:
            return False
    elif form == 3:
        x = call_action("p_type_definition", [call_action("p_type_name", [None, a, "AS"]), "ENUM", "(", ["'a'"], ")"])
        y = call_action("p_type_definition", [call_action("p_type_name", [None, b, "AS"]), "ENUM", "(", ["'b'"], ")"])
    else:
        x, y = call_action("p_seq_name", [None, a]), call_action("p_seq_name", [None, b])
    return not (set(_mutables(x, [])) & set(_mutables(y, [])))


def api_c_fresh(a, b, form):
    from copy import deepcopy
    from simple_ddl_parser import DDLParser
    first = DDLParser("CREATE TABLE a LIKE b;\nCREATE TABLE c LIKE b;\nALTER TABLE a ADD x int;").run()
    ok1 = len(first) == 2 and first[1]["columns"] == []
    d1 = DDLParser("CREATE DOMAIN d2 AS ENUM ('p', 'q');\nCREATE DOMAIN d4 AS decimal(10);").run()
    ok2 = len(d1) == 2 and d1[1]["properties"] == {}
    snap = deepcopy(first)
    DDLParser("CREATE TABLE e LIKE b;\nALTER TABLE e ADD y int;").run()
    return {"like_tables": first, "domains": d1, "reproduced": not (ok1 and ok2 and first == snap)}
