"""Builders for what parse_data() hands to Output (act->out contract), shared by the
output-layer harnesses (C02, C04, C10, C12).  Shapes are those the real parser produces."""
import json
import os
from copy import deepcopy

from simple_ddl_parser.output import table_data as _td
from simple_ddl_parser.output.core import Output

ALL_MODES = ["sql", "redshift", "spark_sql", "mysql", "bigquery", "mssql", "databricks", "sqlite", "vertics",
             "ibm_db2", "postgres", "oracle", "hql", "snowflake", "athena"]

_CAT = json.load(open(os.path.join(os.path.dirname(os.path.dirname(os.path.abspath(__file__))), "catalog", "dialect_keys.json")))
DIALECT_KEYS = _CAT["keys"]
KEY_NAMES = sorted(DIALECT_KEYS)

# The per-mode dataclass is assembled by the real TableData.get_dialect_class, but only once
# per process and outside CrossHair's tracing (dataclass() exec()s source text: seconds per
# call when traced).  Listed as a stub in the evidence.
_real_get = _td.TableData.get_dialect_class.__func__
_memo = {}


def _memo_get(cls, kwargs):
    m = kwargs.get("output_mode")
    if m not in _memo:
        _memo[m] = _real_get(cls, kwargs)
    return _memo[m]


def memoise_dialect_classes():
    for m in ALL_MODES:
        _memo_get(_td.TableData, {"output_mode": m})
    _td.TableData.get_dialect_class = classmethod(_memo_get)


def untraced_filter():
    """filter_out_output rebuilds four sets over all ~50 dataclass fields for every output key;
    under CrossHair's set model that is ~2 s per table.  Its arguments (self, field name) are
    concrete in the harnesses that call this, so the real function is run natively (tracing
    suspended) - same code, same result, listed as an execution-mode stub in the evidence."""
    from crosshair.tracers import NoTracing
    from simple_ddl_parser.output.base_data import BaseData
    real = BaseData.filter_out_output
    if getattr(real, "_vf_untraced", False):
        return

    def filter_out_output(self, field):
        with NoTracing():
            return real(self, field)

    filter_out_output._vf_untraced = True
    BaseData.filter_out_output = filter_out_output


def column(name, typ="int", size=None, nullable=True, pk=False, unique=False, default=None, references=None, check=None):
    return {"name": name, "type": typ, "size": size, "references": references, "unique": unique,
            "primary_key": pk, "nullable": nullable, "default": default, "check": check}


def table_stmt(schema, name, cols, **extra):
    d = {"schema": schema, "table_name": name, "columns": cols, "checks": []}
    d.update(extra)
    return d


def alter_fk(schema, table, cols, ref_table, ref_cols, ref_schema=None, constraint=None, on_delete=None):
    columns = [{"name": c} for c in cols]
    if constraint is not None:
        for c in columns:
            c["constraint_name"] = constraint
    return {"alter_table_name": table, "schema": schema, "columns": columns,
            "references": {"table": ref_table, "columns": list(ref_cols), "schema": ref_schema, "on_delete": on_delete,
                           "on_update": None, "deferrable_initially": None}}


def index_stmt(schema, table, name, cols, unique=False, orders=None):
    orders = orders or ["ASC"] * len(cols)
    return {"schema": schema, "index_name": name, "unique": unique, "clustered": False, "table_name": table,
            "detailed_columns": [{"name": c, "order": o, "nulls": "LAST"} for c, o in zip(cols, orders)],
            "columns": list(cols)}


def fmt(stmts, mode, group=False):
    return Output(parser_output=deepcopy(stmts), output_mode=mode, group_by_type=group).format()


def rename_key(obj, old, new):
    """Recursive copy with dict key `old` renamed to `new` (BigQuery: dataset <-> schema)."""
    if isinstance(obj, dict):
        return {(new if k == old else k): rename_key(v, old, new) for k, v in obj.items()}
    if isinstance(obj, list):
        return [rename_key(v, old, new) for v in obj]
    return obj


COMMON_TABLE_FIELDS = ["table_name", "primary_key", "alter", "checks", "index", "partitioned_by", "tablespace",
                       "constraints", "partition_by"]
COMMON_COLUMN_FIELDS = ["name", "type", "size", "references", "unique", "nullable", "default", "check"]


def jsonable(x) -> bool:
    """Pure-Python JSON-serialisability predicate (json itself is a C boundary)."""
    if x is None or isinstance(x, (bool, int, float, str)):
        return True
    if isinstance(x, (list, tuple)):
        return all(jsonable(i) for i in x)
    if isinstance(x, dict):
        return all(isinstance(k, (str, int, float, bool)) or k is None for k in x) and all(jsonable(v) for v in x.values())
    return False
