"""CH-lex — the real lexer rules (t_ID, t_COLLATE, t_AUTOINCREMENT and everything they call)
in a lexical context.

One process per context (VF_CTX): the context's flag state is obtained by running the real
lexer concretely over the context's prefix at import.  Symbolic: the vocabulary word (index),
its case style (upper / lower / Capitalized / aLtErNaTiNg / one flipped position, the position
symbolic; VF_FULLMASK=1: every letter's case an independent symbolic bool), and - for the
reset lemma - every lexer flag.
"""
import re

from harness._common import PARSER, env_int, token
from simple_ddl_parser import tokens as tok

LX = PARSER.lexer
FLAGS = ["is_table", "sequence", "last_token", "columns_def", "after_columns", "check", "last_par", "lp_open",
         "is_alter", "is_like", "lt_open"]

# (name, prefix text, role)   role: what a word lexed next is, by the property statements
CONTEXTS = [
    ("stmt_start", "", "kw"),
    ("after_create", "CREATE", "kw"),
    ("table_name", "CREATE TABLE", "creation_name"),
    ("col_first", "CREATE TABLE t (", "column_name"),
    ("col_later", "CREATE TABLE t ( a int ,", "column_name"),
    ("col_after_sized", "CREATE TABLE t ( a decimal ( 10 , 2 ) NOT NULL ,", "column_name"),
    ("type_pos", "CREATE TABLE t ( a", "kw"),
    ("option_pos", "CREATE TABLE t ( a int", "kw"),
    ("option_pos2", "CREATE TABLE t ( a int , b varchar ( 10 )", "kw"),
    ("after_not", "CREATE TABLE t ( a int NOT", "kw"),
    ("after_default", "CREATE TABLE t ( a int DEFAULT", "kw"),
    ("pk_list_first", "CREATE TABLE t ( a int , PRIMARY KEY (", "column_name"),
    ("pk_list_later", "CREATE TABLE t ( a int , PRIMARY KEY ( a ,", "column_name"),
    ("uniq_list_first", "CREATE TABLE t ( a int , UNIQUE (", "column_name"),
    ("fk_list_first", "CREATE TABLE t ( a int , CONSTRAINT c FOREIGN KEY (", "column_name"),
    ("ref_list_first", "CREATE TABLE t ( a int REFERENCES o (", "column_name"),
    ("after_constraint", "CREATE TABLE t ( a int , CONSTRAINT", "creation_name"),
    ("after_columns", "CREATE TABLE t ( a int )", "kw"),
    ("after_clause", "CREATE TABLE t ( a int ) STORED AS x", "kw"),
    ("seq_options", "CREATE SEQUENCE s . q", "kw"),
    ("seq_options2", "CREATE SEQUENCE q INCREMENT BY 1", "kw"),
    ("alter_body", "ALTER TABLE t", "kw"),
    ("alter_add", "ALTER TABLE s . t ADD", "kw"),
    ("index_name", "CREATE UNIQUE INDEX", "creation_name"),
    ("index_cols", "CREATE INDEX i ON t (", "column_name"),
    ("type_name", "CREATE TYPE", "creation_name"),
    ("schema_name", "CREATE SCHEMA", "creation_name"),
    ("after_dot", "CREATE TABLE s .", "dot_name"),
    ("seq_after_cache", "CREATE SEQUENCE q CACHE", "kw"),
    ("type_after_dot", "CREATE TABLE t ( a s .", "dot_name"),
    ("ref_list_later", "CREATE TABLE t ( a int REFERENCES o ( x ,", "column_name"),
    ("default_paren", "CREATE TABLE t ( a int DEFAULT (", "column_name"),
    ("alter_drop", "ALTER TABLE t DROP", "kw"),
    ("alter_rename", "ALTER TABLE t RENAME", "kw"),
    ("alter_modify", "ALTER TABLE t MODIFY", "kw"),
]
CTX = env_int("VF_CTX", 0)
CTX_NAME, PREFIX, ROLE = CONTEXTS[CTX]

SYMBOLIC_TERMINALS = {"ID", "DOT", "STRING_BASE", "DQ_STRING", "LP", "RP", "LT", "RT", "COMMAT", "EQ", "COMMA"}
KEYWORDS = sorted(set(t for t in tok.tokens if t not in SYMBOLIC_TERMINALS) | {"AUTO_INCREMENT"})
IDENTS = ["abc", "x", "col_1", "_id9", "Users"]
VOCAB = KEYWORDS + IDENTS
NV = len(VOCAB)
NKW = len(KEYWORDS)
# C06: every grammar keyword except these is accepted as a column name
NOT_A_NAME = {"LIKE", "CONSTRAINT", "FOREIGN", "PRIMARY", "INDEX", "UNIQUE", "CHECK", "WITH", "CLUSTER", "BY", "KEY",
              "COLLATE", "AUTOINCREMENT", "AUTO_INCREMENT"}
WLO = env_int("VF_WLO", 0)
WHI = min(env_int("VF_WHI", NV), NV)
SMIN = env_int("VF_SMIN", 1)   # case styles quantified over: SMIN..SMAX (0 upper, 1 lower, 2 Capitalized,
SMAX = env_int("VF_SMAX", 2)   #   3 aLtErNaTiNg, 4 upper with the letter at symbolic position pos lowered)
NPOS = env_int("VF_NPOS", 1)
MAXLEN = env_int("VF_MAXLEN", 8)

# PLY dispatches a word to the first rule of the master regex that matches; the dispatch is
# taken from the real compiled master regex: for the reference on the upper-case spelling, for
# the word under test on the spelling under test.
_MASTER = LX.lexstatere["INITIAL"]


def rule_for(word: str) -> str:
    for rx, names in _MASTER:
        m = rx.match(word)
        if m:
            return names[m.lastindex][0].__name__
    return "t_ID"


def set_flags(fl: dict):
    for k in FLAGS:
        setattr(LX, k, fl[k])


def get_flags() -> dict:
    return {k: getattr(LX, k) for k in FLAGS}


def _ensure_flags():
    """every flag the rules read exists (a refactoring may move an initialisation into parse_data)"""
    for k in FLAGS:
        if not hasattr(LX, k):
            setattr(LX, k, 0 if k in ("lp_open", "lt_open") else False)


def lex_prefix(text: str) -> dict:
    _ensure_flags()
    PARSER.set_default_flags_in_lexer()
    LX.input(text)
    while LX.token():
        pass
    return get_flags()


BASE = lex_prefix(PREFIX)
RULES = [rule_for(w.upper()) for w in VOCAB]


TOKEN_TABLES = ["definition_statements", "common_statements", "columns_definition", "first_liners", "alter_tokens",
                "after_columns_tokens", "sequence_reserved", "symbol_tokens", "symbol_tokens_no_check"]
TABLES_SNAPSHOT = {n: dict(getattr(tok, n)) for n in TOKEN_TABLES}


def tables_intact() -> bool:
    """lexing must not write into the module-level keyword tables (they are shared by every
    statement, run and parser object of the process)"""
    return all(getattr(tok, n) == TABLES_SNAPSHOT[n] for n in TOKEN_TABLES)


def lex_word(word, rule: str, flags: dict):
    """One call of the real token rule from the given flag state."""
    set_flags(flags)
    t = getattr(PARSER, rule)(token(word))
    return t.type, t.value, get_flags()


REF = [lex_word(w.upper(), r, BASE) for w, r in zip(VOCAB, RULES)]


# ARRAY is a type word: outside a column definition no supported statement contains it, and the
# lexer's case-sensitive `startswith("ARRAY")` shortcut is unobservable there - not claimed.
CLAIMED = [not (w == "ARRAY" and not (BASE["is_table"] and BASE["columns_def"] and not BASE["after_columns"])) for w in VOCAB]


def restyle(w: str, style: int, pos: int) -> str:
    if style == 0:
        return w.upper()
    if style == 1:
        return w.lower()
    if style == 2:
        return w[:1].upper() + w[1:].lower()
    if style == 3:
        return "".join(c.lower() if i % 2 == 0 else c.upper() for i, c in enumerate(w))
    p = pos % len(w)
    return w[:p].upper() + w[p].lower() + w[p + 1:].upper()


def _case_ok(wi: int, cased: str) -> bool:
    # PLY dispatches on the spelling actually written: a keyword rule whose regex is not case-insensitive hands other
    # spellings to a different rule (usually t_ID)
    ty, va, fl = lex_word(cased, rule_for(cased), BASE)
    rty, rva, rfl = REF[wi]
    if ty != rty or fl != rfl:
        return False
    if not tables_intact():
        for n in TOKEN_TABLES:  # restore for the next path, then fail this one
            getattr(tok, n).clear()
            getattr(tok, n).update(TABLES_SNAPSHOT[n])
        return False
    if rty in ("ID", "LT", "RT"):
        return va == cased  # names and type words keep the case they were written in
    if RULES[wi] != "t_ID":
        return va.upper() == rva.upper()  # t_COLLATE / t_AUTOINCREMENT: the value is never read by the grammar
    return va == rva  # keyword tokens carry the upper-case spelling


def c_case(wi: int, style: int, pos: int) -> bool:
    """
    C05.case: in this context a vocabulary word in any of the case styles gets the same token
    type and leaves the same lexer flags as its upper-case spelling; keyword tokens are
    upper-cased, identifiers keep their spelling.

    pre: WLO <= wi < WHI
    pre: SMIN <= style <= SMAX
    pre: 0 <= pos < NPOS
    pre: CLAIMED[wi]
    post: _
    """
    return _case_ok(wi, restyle(VOCAB[wi], style, pos))


def c_case_mask(wi: int, b0: bool, b1: bool, b2: bool, b3: bool, b4: bool, b5: bool, b6: bool, b7: bool) -> bool:
    """
    C05.case, all 2^n case masks of words of up to MAXLEN letters.

    pre: WLO <= wi < WHI
    pre: len(VOCAB[wi]) <= MAXLEN
    pre: CLAIMED[wi]
    post: _
    """
    bits = [b0, b1, b2, b3, b4, b5, b6, b7]
    w = VOCAB[wi]
    cased = "".join((c.lower() if bits[i % 8] else c.upper()) for i, c in enumerate(w))
    return _case_ok(wi, cased)


# keywords that the properties' statement kinds rely on, per context (frozen catalogue: a word
# dropped from a keyword table of tokens.py is a finding, not a silent change of the claim)
_AFTER_COLS = ["PARTITIONED", "PARTITION", "BY", "INTO", "STORED", "LOCATION", "ROW", "FORMAT", "TERMINATED", "COLLECTION",
               "ITEMS", "MAP", "KEYS", "SERDE", "CLUSTER", "SERDEPROPERTIES", "TBLPROPERTIES", "USING", "SKEWED", "STORAGE",
               "TABLESPACE", "TEXTIMAGE_ON", "INHERITS", "DATA_RETENTION_TIME_IN_DAYS", "MAX_DATA_EXTENSION_TIME_IN_DAYS",
               "CHANGE_TRACKING", "PATTERN", "AUTO_REFRESH", "FILE_FORMAT", "TABLE_FORMAT", "STAGE_FILE_FORMAT", "CATALOG",
               "ENGINE", "IN", "ESCAPED", "DEFAULT", "COMMENT", "WITH", "TAG", "ON", "OPTIONS", "AS", "INDEX", "NOT", "FOR", "NO"]
_OPTION = ["NOT", "NULL", "DEFAULT", "PRIMARY", "KEY", "UNIQUE", "REFERENCES", "CHECK", "COMMENT", "COLLATE", "GENERATED",
           "ENCODE", "AUTOINCREMENT", "AUTO_INCREMENT", "ON", "DELETE", "UPDATE", "CONSTRAINT", "FOREIGN", "WITH", "ARRAY",
           "ENUM", "SET", "AS", "DEFERRABLE", "INITIALLY", "ENCRYPT", "MASKING", "POLICY", "TAG", "ORDER", "NOORDER",
           "VISIBLE", "INVISIBLE", "ENFORCED", "WITHOUT", "USING", "INDEX", "FOR", "IN", "NO"]
_SEQ = ["INCREMENT", "START", "WITH", "MINVALUE", "MAXVALUE", "CACHE", "NO", "BY", "NOORDER", "ORDER"]
EXPECT_KW = {
    "stmt_start": ["CREATE", "ALTER", "DROP"],
    "after_create": ["TABLE", "SEQUENCE", "TYPE", "DOMAIN", "SCHEMA", "DATABASE", "TABLESPACE", "OR", "REPLACE", "UNIQUE",
                     "INDEX", "CLUSTERED"],
    "col_later": ["PRIMARY", "UNIQUE", "CONSTRAINT", "FOREIGN", "CHECK", "INDEX", "LIKE"],
    "col_after_sized": ["PRIMARY", "UNIQUE", "CONSTRAINT", "FOREIGN", "CHECK", "INDEX", "LIKE"],
    "type_pos": ["ARRAY", "ENUM", "SET"],
    "option_pos": _OPTION, "option_pos2": _OPTION,
    "after_not": ["NULL", "ENFORCED", "DEFERRABLE"],
    "after_default": ["NULL"],
    "after_columns": _AFTER_COLS, "after_clause": _AFTER_COLS,
    "seq_options": _SEQ, "seq_options2": _SEQ, "seq_after_cache": [w for w in _SEQ if w != "BY"],
    "alter_body": ["ADD", "DROP", "COLUMN", "RENAME", "MODIFY", "DEFAULT", "IF", "EXISTS"],
    "alter_add": ["CONSTRAINT", "PRIMARY", "KEY", "FOREIGN", "UNIQUE", "CHECK", "DEFAULT", "COLUMN"],
    "alter_drop": ["COLUMN"], "alter_rename": ["COLUMN"], "alter_modify": ["COLUMN"],
}
EXPECTED = set(EXPECT_KW.get(CTX_NAME, []))
TYPE_OF = {"AUTO_INCREMENT": "AUTOINCREMENT"}


def c_kw(wi: int, style: int, pos: int) -> bool:
    """
    Keywords of this context (catalogue EXPECT_KW), in any case style, are typed as themselves.

    pre: WLO <= wi < WHI
    pre: 0 <= style <= SMAX
    pre: 0 <= pos < NPOS
    pre: VOCAB[wi] in EXPECTED
    post: _
    """
    w = VOCAB[wi]
    ty, va, fl = lex_word(restyle(w, style, pos), RULES[wi], BASE)
    return ty == TYPE_OF.get(w, w)


def c_name(wi: int, style: int, pos: int) -> bool:
    """
    C06.lex: where a name is expected, every vocabulary word outside the excluded clause
    openers - in any case style - is an ID token whose value is exactly what was written.

    pre: WLO <= wi < WHI
    pre: SMIN <= style <= SMAX
    pre: 0 <= pos < NPOS
    pre: ROLE in ("column_name", "dot_name")
    pre: VOCAB[wi].upper() not in NOT_A_NAME
    post: _
    """
    cased = restyle(VOCAB[wi], style, pos)
    ty, va, fl = lex_word(cased, RULES[wi], BASE)
    return ty == "ID" and va == cased


def c_reset(wi: int, is_table: bool, sequence: bool, last_token: str, columns_def: bool, after_columns: bool, check: bool,
            last_par: str, lp_open: int, is_alter: bool, is_like: bool, lt_open: int) -> bool:
    """
    C03.reset: whatever flag state the previous statement left behind (every flag symbolic,
    last_token / last_par arbitrary strings), after the real set_default_flags_in_lexer() a
    word is lexed exactly as by a pristine lexer, and leaves the same flags.

    pre: WLO <= wi < WHI
    pre: 0 <= lp_open <= 3 and 0 <= lt_open <= 3
    pre: len(last_token) <= 10 and len(last_par) <= 2
    post: _
    """
    dirty = {"is_table": is_table, "sequence": sequence, "last_token": last_token, "columns_def": columns_def,
             "after_columns": after_columns, "check": check, "last_par": last_par,
             "lp_open": lp_open, "is_alter": is_alter, "is_like": is_like, "lt_open": lt_open}
    set_flags(dirty)
    PARSER.set_default_flags_in_lexer()
    w = VOCAB[wi]
    t = getattr(PARSER, RULES[wi])(token(w))
    got = (t.type, t.value, get_flags())
    return got == PRISTINE[wi]


PRISTINE = [lex_word(w, r, lex_prefix("")) for w, r in zip(VOCAB, RULES)]


# ------------------------------------------------------------------ replay -----------------
COMPLETIONS = ["", " x", " NULL", " KEY", " 1", " BY 1", " x y", " ( x )", " TABLE x ( y int )", " INDEX i ON t ( a )",
               " COLUMN x", " COLUMN x int", " COLUMN x TO y", " KEY ( a )", " ( a )", " x int", " int", " x ( y )",
               " AS x", " 'x'", " = x", " x = y", " EXISTS x ( y int )", " AS ENUM ( 'a' )",
               " ( a > 1 )", " ( a < 1 )", " ( a > 1 ) , c int", " ( a >= 1 and a <= 9 )", " ( x > 0 )", " < int >", " < int > , c int",
               " x , c int", " ( x ) , c int", " 1 , c int", " NULL , c int", " a", " b", " a TO c", " a varchar ( 5 )", " b int"]


def _closers(prefix: str):
    depth = prefix.count("(") - prefix.count(")")
    return " " + ") " * depth


VICTIMS = ["CREATE TABLE v1 ( a int , b int , CHECK ( a > 0 {W} b > 0 ) ) ;", "CREATE TABLE v2 ( a int CHECK ( a > 0 {W} a < 9 ) , b int ) ;",
           "CREATE {W} REPLACE TABLE v3 ( a int ) ;", "CREATE TABLE v4 ( {W} int , b int ) ;", "CREATE TABLE v5 ( a {W} , b int ) ;",
           "CREATE TABLE v6 ( a int ) {W} x ;", "CREATE SEQUENCE v7 {W} 1 ;"]
POLLUTERS = ["SELECT x FROM y WHERE ( a = 1 {W} b = 2 ) ;", "CREATE VIEW w AS SELECT * FROM t WHERE ( a = 1 {W} b = 2 ) ;",
             "CREATE TABLE p1 ( a int , {W} int ) ;", "CREATE TABLE p2 ( a int ) {W} ;", "CREATE SEQUENCE p3 {W} ;"]


def api_pollution(word: str):
    """A word lexed in one statement must not change how a later statement is parsed (the
    keyword tables are module-level): victim statement alone vs after a polluting statement,
    each in a fresh interpreter (what was lexed first in a process is exactly what matters)."""
    import json
    import subprocess
    import sys
    code = ("import json,sys\nfrom simple_ddl_parser import DDLParser\nout=[]\n"
            "for d in json.loads(sys.stdin.read()):\n"
            "    try:\n        out.append(DDLParser(d).run())\n    except Exception as e:\n        out.append(type(e).__name__+': '+str(e))\n"
            "print(json.dumps(out, default=repr))")

    def fresh(ddls):
        r = subprocess.run([sys.executable, "-c", code], input=json.dumps(ddls), capture_output=True, text=True)
        try:
            return json.loads(r.stdout.strip().splitlines()[-1])
        except Exception:
            return [None] * len(ddls)

    # the unit-level violation is "a keyword table was written"; which word shows it through the public API
    # depends on the table: besides the word of the counterexample, words usable inside CHECK / options are tried
    for w in (word.upper(), word.lower(), "OR", "or", "SET", "ORDER", "WITH", "TYPE", "REPLACE"):
        victims = [v.replace("{W}", w) for v in VICTIMS]
        alone = [fresh([v])[0] for v in victims]
        for p in POLLUTERS:
            first = p.replace("{W}", w)
            for v, al in zip(victims, alone):
                if not (isinstance(al, list) and al):
                    continue
                both = fresh([first + "\n" + v])[0]
                tail = both[-len(al):] if isinstance(both, list) else both
                if tail != al:
                    return {"ddl": first + "\n" + v, "got": both, "expected_tail": al, "reproduced": True,
                            "note": "each script parsed in a fresh interpreter"}
    return {"reproduced": False}


def api_case(word_up: str, cased: str):
    """Public-API replay: some completion of `prefix word` that parses to a non-empty result
    with the upper-case spelling must give the same result with the cased spelling (modulo
    the word's own spelling where it is reported as a name)."""
    from simple_ddl_parser import DDLParser
    tried = []
    for comp in COMPLETIONS:
        for pre_stmt in ("", "CREATE TABLE t ( a int , b int ) ;\n", "CREATE TABLE s.t ( a int , b int ) ;\n"):
            tail = comp + _closers(PREFIX + comp) + ";"
            d_up = pre_stmt + PREFIX + " " + word_up + tail
            d_cs = pre_stmt + PREFIX + " " + cased + tail
            try:
                r_up = DDLParser(d_up).run()
            except Exception:
                continue
            if not r_up or (pre_stmt and len(r_up) == 1 and not r_up[0].get("alter") and not r_up[0].get("index")):
                continue
            try:
                r_cs = DDLParser(d_cs).run()
            except Exception as e:
                r_cs = f"{type(e).__name__}: {e}"
            tried.append(d_cs)
            if _fold(r_cs, cased, word_up) != _fold(r_up, cased, word_up):
                return {"ddl": d_cs, "ddl_upper": d_up, "got": r_cs, "expected_like": r_up, "reproduced": True}
    pol = api_pollution(word_up)
    if pol.get("reproduced"):
        return pol
    return {"reproduced": False, "tried": tried[:5], "note": "no completion of the context shows a difference through the public API"}


def _fold(x, cased, up):
    s = repr(x)
    return s.replace(cased, up) if cased != up else s


def api_c_case(wi, style, pos):
    w = VOCAB[wi]
    return api_case(w.upper(), restyle(w, style, pos))


def api_c_kw(wi, style, pos):
    if CTX_NAME.startswith("seq_"):
        # in a sequence statement every option keyword names its own output key
        from simple_ddl_parser import DDLParser
        w = restyle(VOCAB[wi], style, pos)
        key = {"NO": "maxvalue", "BY": "increment_by", "WITH": "start_with"}.get(VOCAB[wi], VOCAB[wi].lower())
        pre = PREFIX + (" INCREMENT" if VOCAB[wi] == "BY" else " START" if VOCAB[wi] == "WITH" else "")
        for comp in ("", " 1", " MAXVALUE", " BY 1", " WITH 1"):
            ddl = f"{pre} {w}{comp} ;"
            try:
                r = DDLParser(ddl).run()
            except Exception:
                continue
            if r and any(k.startswith(key) for k in r[0]):
                return {"ddl": ddl, "got": r, "reproduced": False}
        return {"ddl": f"{pre} {w} ... ;", "expected": f"a sequence entry with key {key}", "reproduced": True,
                "note": "no completion of the sequence statement reports the option"}
    return api_case(VOCAB[wi].upper(), restyle(VOCAB[wi], style, pos)) if style else {"reproduced": True, "note": "upper-case keyword not recognised in its context (lexer-level; see unit replay)"}


def api_c_case_mask(wi, b0, b1, b2, b3, b4, b5, b6, b7):
    bits = [b0, b1, b2, b3, b4, b5, b6, b7]
    w = VOCAB[wi]
    return api_case(w.upper(), "".join((c.lower() if bits[i % 8] else c.upper()) for i, c in enumerate(w)))


def api_c_name(wi, style, pos):
    """The word as a column / list name: the table must come back with that name verbatim."""
    from simple_ddl_parser import DDLParser
    cased = restyle(VOCAB[wi], style, pos)
    if ROLE == "dot_name":
        ddl = f"{PREFIX} {cased} ( a int ) ;"
        r = DDLParser(ddl).run()
        ok = bool(r) and r[0].get("table_name") == cased
        return {"ddl": ddl, "got": r, "reproduced": not ok}
    if CTX_NAME.startswith("col_"):
        ddl = f"{PREFIX} {cased} int ) ;"
    elif CTX_NAME == "index_cols":
        ddl = f"CREATE TABLE t ( {cased} int ) ;\n{PREFIX} {cased} ) ;"
    elif CTX_NAME == "ref_list_first":
        ddl = f"{PREFIX} {cased} ) ) ;"
    elif CTX_NAME == "fk_list_first":
        ddl = f"CREATE TABLE t ( {cased} int , CONSTRAINT c FOREIGN KEY ( {cased} ) REFERENCES o ( x ) ) ;"
    else:
        head = PREFIX.replace("( a int ,", f"( a int , {cased} int ,").replace("( a ,", "( a ,")
        ddl = f"{head} {cased} ) ) ;"
    r = DDLParser(ddl).run()
    ok = bool(r) and cased in repr(r[0])
    return {"ddl": ddl, "got": r, "reproduced": not ok}


def api_c_reset(wi, is_table, sequence, last_token, columns_def, after_columns, check, last_par, lp_open, is_alter, is_like, lt_open):
    """Statement pairs: a first statement that leaves the lexer in a non-default state, then a
    statement starting with the word; the second must parse as it does alone."""
    from simple_ddl_parser import DDLParser
    firsts = ["CREATE TABLE z ( a int CHECK ( a > 1 ) ) ;", "CREATE SEQUENCE q START 1 ;", "ALTER TABLE z ADD c int ;",
              "CREATE TABLE z LIKE y ;", "CREATE TABLE z ( a MAP < int , int > ) ;", "CREATE TABLE z ( a int ) STORED AS x ;",
              "CREATE TABLE z ( a int ) ;\nALTER TABLE z ADD CONSTRAINT k CHECK ( a > 1 ) ;",
              # statements that leave the bracket counter / other flags off balance: an unpaired '<' outside a CHECK
              "CREATE VIEW v AS SELECT id FROM o WHERE amount < 5 ;", "CREATE TABLE z ( a int ) ;\nCREATE INDEX i1 ON z ( a ) WHERE a < 5 ;",
              "CREATE TABLE z ( a int , b int"]
    seconds = ["CREATE TABLE t ( a int , b varchar ( 3 ) ) ;", "CREATE SEQUENCE s INCREMENT BY 2 ;", "CREATE INDEX i ON z ( a ) ;",
               "CREATE TABLE t ( a MAP < int , int > , b ARRAY < int > ) ;", "CREATE TABLE t ( a int ) STORED AS x ;", "ALTER TABLE z ADD c int ;"]
    for f in firsts:
        for s in seconds:
            try:
                alone = DDLParser("CREATE TABLE z ( a int ) ;\n" + s).run()[1:] if "INDEX" not in s else None
                both = DDLParser(f + "\n" + s).run()
            except Exception:
                continue
            if alone and isinstance(both, list) and both[-len(alone):] != alone:
                return {"ddl": f + "\n" + s, "got": both, "expected_tail": alone, "reproduced": True}
    return {"reproduced": False, "note": "statement pairs agree through the public API"}
