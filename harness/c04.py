"""C04 — ALTER TABLE / CREATE INDEX change exactly the table they name, as declared.

Front end: the statement dicts are produced at import by the real parser from concrete DDL for
every (kind, schema spelling, name spelling) of the catalogues.  Under CrossHair the real
Output.format routes a symbolically chosen statement to one of two tables whose own spelling,
schema and order are symbolic; the effect on the target and the frame on the other table are
compared with the property's reference model.  One process per statement kind (VF_KIND).
"""
from copy import deepcopy

from harness._common import env_int
from harness.out_common import fmt, untraced_filter
from simple_ddl_parser import DDLParser

KIND = env_int("VF_KIND", 0)
NSP = env_int("VF_NSP", 3)   # how many spellings / schemas of the catalogues are quantified over
NSC = env_int("VF_NSC", 3)
SPELL = ["t", "T", '"t"', "[t]", '"T"']
SCH = [None, "s", '"S"', "[s]", "S"]

KINDS = [
    ("add_column", "ALTER TABLE {T} ADD d int;"),
    ("drop_column", "ALTER TABLE {T} DROP COLUMN B;"),
    ("rename_column", "ALTER TABLE {T} RENAME COLUMN b TO e;"),
    ("modify_column", "ALTER TABLE {T} MODIFY COLUMN b varchar(5);"),
    ("add_pk", "ALTER TABLE {T} ADD PRIMARY KEY (a);"),
    ("add_unique_1", "ALTER TABLE {T} ADD UNIQUE (a);"),
    ("add_unique_2", "ALTER TABLE {T} ADD CONSTRAINT u UNIQUE (a, b);"),
    ("add_check", "ALTER TABLE {T} ADD CONSTRAINT k CHECK (a > 1);"),
    ("add_default_for", "ALTER TABLE {T} ADD CONSTRAINT df DEFAULT 0 FOR c;"),
    ("add_fk_2", "ALTER TABLE {T} ADD FOREIGN KEY (a, b) REFERENCES o (x, y);"),
    ("create_index", "CREATE UNIQUE INDEX i ON {T} (a DESC, b);"),
    ("drop_first", "ALTER TABLE {T} DROP COLUMN A;"),
    ("rename_first", "ALTER TABLE {T} RENAME COLUMN a TO g;"),
    ("modify_first", "ALTER TABLE {T} MODIFY COLUMN a varchar(5);"),
    ("modify_last", "ALTER TABLE {T} MODIFY COLUMN c varchar(5);"),
    ("rename_case", "ALTER TABLE {T} RENAME COLUMN b TO B;"),
]
KNAME, KDDL = KINDS[KIND]


def qual(sch, name):
    return name if sch is None else f"{sch}.{name}"


def _parse(ddl):
    return DDLParser(ddl).parse_data()


COLS = "a int, b int, c int"
# statement dicts from the real front end, per (schema spelling, name spelling) of the address
STMT = [[_parse(f"CREATE TABLE z (a int);\n" + KDDL.format(T=qual(s, n)))[1] for n in SPELL] for s in SCH]
TABLE = [[_parse(f"CREATE TABLE {qual(s, n)} ({COLS});")[0] for n in SPELL] for s in SCH]
OTHER_SAME_NAME = _parse(f"CREATE TABLE q.t ({COLS});")[0]
OTHER_NAME = [_parse(f"CREATE TABLE {qual(s, 'u')} ({COLS});")[0] for s in SCH]


untraced_filter()  # BaseData.filter_out_output runs natively on concrete arguments (see out_common)
BASE_T = [[fmt([deepcopy(t)], "sql")[0] for t in row] for row in TABLE]
BASE_OSN = fmt([deepcopy(OTHER_SAME_NAME)], "sql")[0]
BASE_ON = [fmt([deepcopy(t)], "sql")[0] for t in OTHER_NAME]


def strip(x):
    """identity of a name: delimiters off, case folded (the property's matching rule)"""
    if x is None:
        return None
    for o, c in (('"', '"'), ("[", "]"), ("`", "`")):
        if len(x) > 2 and x.startswith(o) and x.endswith(c):
            x = x[1:-1]
    return x.lower()


def _baseline(tbl):
    return fmt([deepcopy(tbl)], "sql")[0]


def _names(t):
    return [c["name"] for c in t["columns"]]


def effect_ok(base: dict, got: dict) -> bool:
    """the declared effect of statement kind KNAME on the target table entry"""
    exp = deepcopy(base)
    if KNAME == "add_column":
        if _names(got) != ["a", "b", "c", "d"] or got["columns"][3]["type"] != "int":
            return False
        if [c["name"] for c in got["alter"].get("columns", [])] != ["d"]:
            return False
        exp["columns"], exp["alter"] = got["columns"], got["alter"]
        return got == exp and got["columns"][:3] == base["columns"]
    if KNAME == "drop_column":
        return _names(got) == ["a", "c"] and got["columns"] == [base["columns"][0], base["columns"][2]] and \
            got["alter"].get("dropped_columns") == base["columns"][1]
    if KNAME == "rename_column":
        cols = deepcopy(base["columns"])
        cols[1]["name"] = "e"
        return got["columns"] == cols and got["alter"] == {"renamed_columns": [{"from": "b", "to": "e"}]}
    if KNAME == "modify_column":
        return _names(got) == ["a", "b", "c"] and got["columns"][1]["type"] == "varchar" and got["columns"][1]["size"] == 5 and \
            got["columns"][0] == base["columns"][0] and got["columns"][2] == base["columns"][2] and \
            got["alter"].get("modified_columns") == base["columns"][1]
    if KNAME == "drop_first":
        return got["columns"] == base["columns"][1:] and got["alter"].get("dropped_columns") == base["columns"][0]
    if KNAME == "rename_first":
        cols = deepcopy(base["columns"])
        cols[0]["name"] = "g"
        return got["columns"] == cols and got["alter"] == {"renamed_columns": [{"from": "a", "to": "g"}]}
    if KNAME == "rename_case":
        cols = deepcopy(base["columns"])
        cols[1]["name"] = "B"
        return got["columns"] == cols and got["alter"] == {"renamed_columns": [{"from": "b", "to": "B"}]}
    if KNAME in ("modify_first", "modify_last"):
        i = 0 if KNAME == "modify_first" else 2
        return _names(got) == ["a", "b", "c"] and got["columns"][i]["type"] == "varchar" and got["columns"][i]["size"] == 5 and \
            [c for j, c in enumerate(got["columns"]) if j != i] == [c for j, c in enumerate(base["columns"]) if j != i] and \
            got["alter"].get("modified_columns") == base["columns"][i]
    if KNAME == "add_pk":
        exp["alter"] = {"primary_keys": [{"constraint_name": None, "columns": ["a"]}]}
        return got == exp
    if KNAME == "add_unique_1":
        exp["alter"] = {"uniques": [{"constraint_name": None, "columns": ["a"]}]}
        exp["columns"][0]["unique"] = True
        return got == exp
    if KNAME == "add_unique_2":
        exp["alter"] = {"uniques": [{"constraint_name": "u", "columns": ["a", "b"]}]}
        return got == exp
    if KNAME == "add_check":
        exp["alter"] = {"checks": [{"constraint_name": "k", "statement": "a > 1"}]}
        return got == exp
    if KNAME == "add_default_for":
        exp["alter"] = {"defaults": [{"constraint_name": "df", "columns": ["c"], "value": "0"}]}
        exp["columns"][2]["default"] = "0"
        return got == exp
    if KNAME == "add_fk_2":
        r = {"table": "o", "schema": None, "on_delete": None, "on_update": None, "deferrable_initially": None}
        exp["alter"] = {"columns": [{"name": "a", "constraint_name": None, "references": dict(r, column="x")},
                                    {"name": "b", "constraint_name": None, "references": dict(r, column="y")}]}
        return got == exp
    exp["index"] = [{"index_name": "i", "unique": True,
                     "detailed_columns": [{"name": "a", "order": "DESC", "nulls": "LAST"}, {"name": "b", "order": "ASC", "nulls": "LAST"}],
                     "columns": ["a", "b"]}]
    return got == exp


OTHER_DOTTED = [_parse(f'CREATE TABLE "{qual(strip(s_), "t")}" ({COLS});')[0] for s_ in SCH]  # a quoted name that spells schema.table
BASE_DOTTED = [fmt([deepcopy(t)], "sql")[0] for t in OTHER_DOTTED]
OTHER_NEAR = [_parse(f"CREATE TABLE {qual(s, 't$')} ({COLS});")[0] for s in SCH]
BASE_NEAR = [fmt([deepcopy(t)], "sql")[0] for t in OTHER_NEAR]


def c_route(sd: int, pd: int, sr: int, pr: int, other_kind: int, target_first: bool) -> bool:
    """
    The statement addressed (schema spelling sr, name spelling pr) reaches exactly the table
    defined as (sd, pd) when schema and name agree modulo delimiters and case - whatever the
    order of the two tables, and also when the other table has the same name in another schema
    - and applies the declared effect; otherwise (no table matches) ValueError is raised.

    pre: 0 <= sd < NSC and 0 <= sr < NSC
    pre: 0 <= pd < NSP and 0 <= pr < NSP
    pre: 0 <= other_kind <= 3
    pre: other_kind != 3 or sd != 0
    post: _
    """
    same_name_other = other_kind == 0
    target = TABLE[sd][pd]
    other = OTHER_SAME_NAME if other_kind == 0 else (OTHER_NAME[sd] if other_kind == 1 else OTHER_NEAR[sd] if other_kind == 2 else OTHER_DOTTED[sd])
    stmts = [target, other] if target_first else [other, target]
    stmts = stmts + [STMT[sr][pr]]
    match = strip(SCH[sr]) == strip(SCH[sd]) and strip(SPELL[pr]) == strip(SPELL[pd])
    base_t, base_o = BASE_T[sd][pd], (BASE_OSN if other_kind == 0 else (BASE_ON[sd] if other_kind == 1 else BASE_NEAR[sd] if other_kind == 2 else BASE_DOTTED[sd]))
    try:
        res = fmt(stmts, "sql")
    except ValueError:
        return not match
    if not match:
        return False  # attached somewhere although no table has that (schema, name)
    if len(res) != 2:
        return False
    got_t, got_o = (res[0], res[1]) if target_first else (res[1], res[0])
    return got_o == base_o and effect_ok(base_t, got_t)


def api_c_route(sd, pd, sr, pr, other_kind, target_first):
    t_ddl = f"CREATE TABLE {qual(SCH[sd], SPELL[pd])} ({COLS});"
    o_ddl = f"CREATE TABLE q.t ({COLS});" if other_kind == 0 else (f'CREATE TABLE "{qual(strip(SCH[sd]), "t")}" ({COLS});' if other_kind == 3 else
                                                                   f"CREATE TABLE {qual(SCH[sd], 'u' if other_kind == 1 else 't$')} ({COLS});")
    ddl = "\n".join(([t_ddl, o_ddl] if target_first else [o_ddl, t_ddl]) + [KDDL.format(T=qual(SCH[sr], SPELL[pr]))])
    match = strip(SCH[sr]) == strip(SCH[sd]) and strip(SPELL[pr]) == strip(SPELL[pd])
    base_t = DDLParser(t_ddl).run()[0]
    base_o = DDLParser(o_ddl).run()[0]
    try:
        res = DDLParser(ddl).run()
    except ValueError as e:
        return {"ddl": ddl, "got": f"ValueError: {e}", "expected": "routed to the named table" if match else "ValueError", "reproduced": match}
    if not match:
        return {"ddl": ddl, "got": res, "expected": "ValueError (no such table)", "reproduced": True}
    got_t, got_o = (res[0], res[1]) if target_first else (res[1], res[0])
    ok = len(res) == 2 and got_o == base_o and effect_ok(base_t, got_t)
    return {"ddl": ddl, "got": res, "expected": f"effect {KNAME} on the first-named table only", "reproduced": not ok}


# ---------------------------------------------------------------- sequences of ALTERs --------
OPS = [
    ("ADD d int", "ALTER TABLE t ADD d int;"),
    ("RENAME d TO e", "ALTER TABLE t RENAME COLUMN d TO e;"),
    ("ADD f int", "ALTER TABLE t ADD f int;"),
    ("ADD FK (c)", "ALTER TABLE t ADD FOREIGN KEY (c) REFERENCES o (x);"),
    ("RENAME a TO g", "ALTER TABLE t RENAME COLUMN a TO g;"),
    ("DROP b", "ALTER TABLE t DROP COLUMN b;"),
    ("ADD FK (b)", "ALTER TABLE t ADD CONSTRAINT k FOREIGN KEY (b) REFERENCES o (y);"),
]
NOPS = len(OPS)
OP_STMT = [_parse("CREATE TABLE z (a int);\n" + d)[1] for _, d in OPS]
SEQ_TABLE = _parse(f"CREATE TABLE t ({COLS});")[0]
COMMON = ["name", "type", "size", "references", "unique", "nullable", "default", "check"]


def model_names(ops):
    """reference model of the column list under a sequence of ALTERs"""
    names = ["a", "b", "c"]
    for o in ops:
        if o == 0 and "d" not in names:
            names.append("d")
        elif o == 1 and "d" in names:
            names[names.index("d")] = "e"
        elif o == 2 and "f" not in names:
            names.append("f")
        elif o == 4 and "a" in names:
            names[names.index("a")] = "g"
        elif o == 5 and "b" in names:
            names.remove("b")
    return names


def kf_fk_on_absent_column(o1: int, o2: int, o3: int) -> bool:
    """known behaviour outside the claim: a foreign-key ALTER naming a column the table does not
    (any longer) have appends a stub column (ADD FK (b) after DROP b)."""
    ops = [o1, o2, o3]
    return 6 in ops and 5 in ops and ops.index(5) < len(ops) - 1 - ops[::-1].index(6)


def c_seq(o1: int, o2: int, o3: int) -> bool:
    """
    A sequence of three ALTER statements on one table: the column list evolves as declared
    (added columns appended once, renamed in place, dropped removed), every column keeps the
    documented fields, foreign keys are recorded in the alter section.

    pre: 0 <= o1 < NOPS and 0 <= o2 < NOPS and 0 <= o3 < NOPS
    pre: not kf_fk_on_absent_column(o1, o2, o3)
    post: _
    """
    res = fmt([deepcopy(SEQ_TABLE), deepcopy(OP_STMT[o1]), deepcopy(OP_STMT[o2]), deepcopy(OP_STMT[o3])], "sql")
    if len(res) != 1:
        return False
    t = res[0]
    if [c.get("name") for c in t["columns"]] != model_names([o1, o2, o3]):
        return False
    for c in t["columns"]:
        for f in COMMON:
            if f not in c:
                return False
    fks = len([o for o in (o1, o2, o3) if o in (3, 6)])
    adds = len({o for o in (o1, o2, o3) if o in (0, 2)})
    return len([c for c in t["alter"].get("columns", []) if c.get("references")]) == fks and \
        len(t["alter"].get("columns", [])) >= fks + adds


def api_c_seq(o1, o2, o3):
    ddl = f"CREATE TABLE t ({COLS});\n" + "\n".join(OPS[o][1] for o in (o1, o2, o3))
    res = DDLParser(ddl).run()
    names = [c.get("name") for c in res[0]["columns"]]
    ok = names == model_names([o1, o2, o3]) and all(all(f in c for f in COMMON) for c in res[0]["columns"])
    return {"ddl": ddl, "got_columns": res[0]["columns"], "expected_names": model_names([o1, o2, o3]), "reproduced": not ok}


def c_no_cross_run(pd: int, pr: int) -> bool:
    """
    C14 / C04: tables known to one run are not visible to the next: formatting a script that
    only ALTERs / indexes a table defined in an earlier run raises ValueError.

    pre: 0 <= pd < NSP and 0 <= pr < NSP
    post: _
    """
    first = fmt([TABLE[0][pd]], "sql")
    if len(first) != 1:
        return False
    snapshot = deepcopy(first)
    try:
        fmt([STMT[0][pr]], "sql")
    except ValueError:
        return first == snapshot
    return False


def api_c_no_cross_run(pd, pr):
    first = DDLParser(f"CREATE TABLE {SPELL[pd]} ({COLS});").run()
    snap = deepcopy(first)
    try:
        second = DDLParser(KDDL.format(T=SPELL[pr])).run()
    except ValueError:
        return {"reproduced": first != snap}
    return {"ddl2": KDDL.format(T=SPELL[pr]), "got": second, "first_result_now": first, "expected": "ValueError", "reproduced": True}


# ---------------------------------------------------------------- redefinition / substring names
REDEF = [_parse("CREATE TABLE t (a int);")[0], _parse("CREATE TABLE z (a int);\nCREATE UNIQUE INDEX i ON t (a);")[1],
         _parse("CREATE TABLE z (a int);\nALTER TABLE t ADD d int;")[1], _parse("DROP TABLE t;")[0], _parse("CREATE TABLE t (a int, b int);")[0],
         _parse("CREATE TABLE IF NOT EXISTS t (a int, c int);")[0]]
SUBT = _parse("CREATE TABLE t (id int PRIMARY KEY, customer_id int, cust int, order_id int);")[0]
SUB_DROP = [_parse("CREATE TABLE z (a int);\nALTER TABLE t DROP COLUMN " + c + ";")[1] for c in ("customer_id", "cust", "order_id", "id")]


def c_redefine(with_index: bool, with_alter: bool, again: int) -> bool:
    """
    ALTER / CREATE INDEX statements reach the table that was defined *before* them even when the
    same name is defined again later in the script (DROP TABLE + CREATE TABLE, or CREATE TABLE IF
    NOT EXISTS): the earlier table gets the index / column, the later one does not.

    pre: 3 <= again <= 5
    post: _
    """
    stmts = [deepcopy(REDEF[0])] + ([deepcopy(REDEF[1])] if with_index else []) + ([deepcopy(REDEF[2])] if with_alter else [])
    tail = [deepcopy(REDEF[3]), deepcopy(REDEF[4])] if again == 3 else [deepcopy(REDEF[again])]
    res = fmt(stmts + tail, "sql")
    first, later = res[0], res[-1]
    ok_first = (len(first["index"]) == (1 if with_index else 0)) and ([c["name"] for c in first["columns"]] == (["a", "d"] if with_alter else ["a"]))
    ok_later = later["index"] == [] and later["alter"] == {} and "d" not in [c["name"] for c in later["columns"]]
    return ok_first and ok_later


def api_c_redefine(with_index, with_alter, again):
    ddl = "CREATE TABLE t (a int);\n" + ("CREATE UNIQUE INDEX i ON t (a);\n" if with_index else "") + ("ALTER TABLE t ADD d int;\n" if with_alter else "") + \
        ("DROP TABLE t;\nCREATE TABLE t (a int, b int);" if again == 3 else "CREATE TABLE t (a int, b int);" if again == 4 else "CREATE TABLE IF NOT EXISTS t (a int, c int);")
    res = DDLParser(ddl).run()
    first, later = res[0], res[-1]
    ok = (len(first["index"]) == (1 if with_index else 0)) and ([c["name"] for c in first["columns"]] == (["a", "d"] if with_alter else ["a"])) and \
        later["index"] == [] and later["alter"] == {}
    return {"ddl": ddl, "got": res, "reproduced": not ok}


def c_drop_exact(k: int, k2: int) -> bool:
    """
    DROP COLUMN removes exactly the named column also when another column's name is contained
    in it or contains it (id / customer_id / cust / order_id); primary_key keeps naming existing
    columns only when the dropped one was not a key column.

    pre: 0 <= k <= 2 and 0 <= k2 <= 2 and k != k2
    post: _
    """
    names = ["customer_id", "cust", "order_id"]
    res = fmt([deepcopy(SUBT), deepcopy(SUB_DROP[k]), deepcopy(SUB_DROP[k2])], "sql")
    left = [c["name"] for c in res[0]["columns"]]
    want = [n for n in ["id", "customer_id", "cust", "order_id"] if n not in (names[k], names[k2])]
    return left == want and res[0]["primary_key"] == ["id"]


def api_c_drop_exact(k, k2):
    names = ["customer_id", "cust", "order_id"]
    ddl = "CREATE TABLE t (id int PRIMARY KEY, customer_id int, cust int, order_id int);\n" + "\n".join(f"ALTER TABLE t DROP COLUMN {names[i]};" for i in (k, k2))
    res = DDLParser(ddl).run()
    left = [c["name"] for c in res[0]["columns"]]
    want = [n for n in ["id", "customer_id", "cust", "order_id"] if n not in (names[k], names[k2])]
    return {"ddl": ddl, "got_columns": left, "expected": want, "primary_key": res[0]["primary_key"], "reproduced": left != want or res[0]["primary_key"] != ["id"]}
