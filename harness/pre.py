"""CH-pre — the text pre-processor and line/comment state machine of parser.py
(pre_process_data, parse_data, process_line and everything they call) with the LALR parser
replaced by an identity stub: yacc.parse(statement) -> {"stmt": statement}.

The script is assembled from catalogued line fragments chosen by symbolic indices, plus
(VF_SYMTAIL) a short fully symbolic string; the input is handed over already in the
`unicode_escape` form the constructor produces (newline = backslash + 'n'; the C-level
encoder itself is outside the encoding).
"""
from harness._common import PARSER, env_int
import simple_ddl_parser.parser as pm


def _stub_parse(statement, **kw):
    return {"stmt": statement}


pm.yacc.parse = _stub_parse  # stub: listed in the evidence


def esc(lines) -> str:
    return "\\n".join(lines)


def fresh_state():
    """What Parser.__init__ establishes before the first run()."""
    PARSER.tables = []
    PARSER.statement = None
    PARSER.block_comments = []
    PARSER.comments = []
    PARSER.columns_closed = False


def run_lines(lines, fresh=True):
    if fresh:
        fresh_state()
    # Parser.data is what the constructor stores: the bytes of the unicode-escaped text (real bytes, so that any
    # isinstance / bytes-method use in the code under test behaves as in production)
    PARSER.data = esc(lines).encode("utf-8")
    return PARSER.parse_data()


def stmts_of(result):
    return [" ".join(r["stmt"].split()) for r in result if isinstance(r, dict) and "stmt" in r]


def others_of(result):
    return [r for r in result if not (isinstance(r, dict) and "stmt" in r)]


# ---------------------------------------------------------------- catalogues ----------------
# complete one-line statements (each ends with ';' at the line end)
SUPPORTED = [
    "CREATE TABLE t (a int, b int);",
    "create table s.u (x varchar(10) NOT NULL, y int DEFAULT 1);",
    "ALTER TABLE t ADD c int;",
    "CREATE INDEX i ON t (a);",
    "CREATE SEQUENCE q START 1;",
    "DROP TABLE t;",
    "CREATE TYPE ty AS ENUM ('a', 'b');",
]
UNSUPPORTED = [
    "SELECT a FROM t;",
    "UPDATE t SET a = 1;",
    "COMMENT ON TABLE t IS 'x';",
    "COMMENT ON TABLE t IS 'step 1) load';",
    "INSERT INTO t VALUES (1, 2);",
    "GRANT ALL ON t TO u;",
    "USE db;",
    "GO",
    "DELETE FROM t;",
    "CREATE VIEW v AS SELECT 1;",
    "BEGIN;",
    "",
    "   ",
]
SETS = ["SET x = 1;", "SET ANSI_NULLS ON;", "set y 2 ;"]
# appended later (indices of the lines above are used by obligations): skipped statements without a terminating ';'
# (T-SQL style, followed by GO in practice) and further unsupported statements
EXTRA = ["INSERT INTO t VALUES (1)", "TRUNCATE TABLE t;", "DELETE FROM t", "MERGE INTO t USING s ON t.a = s.a;"]
LINES = SUPPORTED + UNSUPPORTED + SETS + EXTRA
NL = len(LINES)
NSUP = len(SUPPORTED)

ALONE = [run_lines([ln]) for ln in LINES]
# SET statements are resolved one line late (parse_set_statement): alone-result followed by a neutral line
ALONE_THEN_BLANK = [run_lines([ln, ""]) for ln in LINES]

K1 = env_int("VF_K1", -1)  # when >= 0: the first line is fixed (one process per first line)


def c_split2(i1: int, i2: int) -> bool:
    """
    C03.split: a script of two complete one-line statements yields the concatenation of what
    each yields alone (unsupported lines are handed to the parser or skipped exactly as alone).

    pre: 0 <= i1 < NL and 0 <= i2 < NL
    pre: K1 < 0 or i1 == K1
    post: _
    """
    got = run_lines([LINES[i1], LINES[i2], ""])
    want = ALONE_THEN_BLANK[i1] + ALONE_THEN_BLANK[i2]
    return got == want


def c_split3(i1: int, i2: int, i3: int) -> bool:
    """
    C03.split, three lines.

    pre: 0 <= i1 < NL and 0 <= i2 < NL and 0 <= i3 < NL
    pre: K1 < 0 or i1 == K1
    post: _
    """
    got = run_lines([LINES[i1], LINES[i2], LINES[i3], ""])
    want = ALONE_THEN_BLANK[i1] + ALONE_THEN_BLANK[i2] + ALONE_THEN_BLANK[i3]
    return got == want


# ---------------------------------------------------------------- C05.lines ------------------
TOKENS = [
    ["CREATE", "TABLE", "t", "(", "a", "int", "NOT", "NULL", ",", "b", "varchar(10)", "DEFAULT", "'x'", ")", ";"],
    ["ALTER", "TABLE", "t", "ADD", "CONSTRAINT", "c", "FOREIGN", "KEY", "(a)", "REFERENCES", "o", "(x)", "ON", "UPDATE", "CASCADE", ";"],
    ["CREATE", "UNIQUE", "INDEX", "i", "ON", "t", "(", "a", "DESC", ",", "b", ")", ";"],
    ["CREATE", "SEQUENCE", "q", "INCREMENT", "BY", "1", "START", "WITH", "5", "NO", "MAXVALUE", ";"],
]
T = env_int("VF_T", 0)
TOK = TOKENS[T]
NGAP = len(TOK) - 1
# first words a line must not start with unless it starts a statement (excluded by the property)
STMT_WORDS = {"CREATE", "ALTER", "DROP", "SET", "GO", "USE", "INSERT", "GRANT", "DELETE"}
ONE_LINE = stmts_of(run_lines([" ".join(TOK[:-1]) + TOK[-1]]))


def _layout(breaks, seps, crlf=False):
    """tokens -> lines: gap g is a line break if breaks[g] else the separator seps[g]"""
    lines, cur = [], TOK[0]
    for g in range(NGAP):
        nxt = TOK[g + 1]
        if nxt == ";":
            cur += nxt
            continue
        if breaks[g] and nxt.upper() not in STMT_WORDS:
            lines.append(cur + ("\\r" if crlf else ""))
            cur = nxt
        else:
            cur += ["", " ", "  ", "\\t"][seps[g]] if (seps[g] and False) else " "
            cur += nxt
    if crlf:
        return lines + [cur + "\\r", ""]  # a CRLF file: every line, the last one too, ends in \r\n
    lines.append(cur)
    return lines


def _breaks(g1, g2, g3):
    return [g in (g1, g2, g3) for g in range(NGAP)]


def kf_quote_at_line_start(g1: int, g2: int, g3: int, indent: int) -> bool:
    """known finding C05/quote-at-line-start: a continuation line that begins with a quoted
    literal in column 0 (the newline-splitting regex takes the break for part of a string)."""
    return indent == 0 and any(0 <= g < NGAP and TOK[g + 1].startswith("'") for g in (g1, g2, g3))


NBREAK = env_int("VF_NBREAK", 2)


def c_lines(g1: int, g2: int, g3: int, indent: int, blank: bool, crlf: bool) -> bool:
    """
    C05.lines: breaking a statement into lines at up to NBREAK token gaps (g1 < g2 < g3, -1 =
    unused), indenting continuation lines, and inserting a blank line after the first break
    hands the parser the same statement as the one-line spelling - with LF or CRLF line ends.

    pre: -1 <= g1 < NGAP and -1 <= g2 < NGAP and -1 <= g3 < NGAP
    pre: (g2 == -1 or g1 < g2) and (g3 == -1 or (g2 != -1 and g2 < g3))
    pre: (NBREAK >= 3 or g3 == -1) and (NBREAK >= 2 or g2 == -1)
    pre: 0 <= indent <= 2
    pre: not kf_quote_at_line_start(g1, g2, g3, indent)
    post: _
    """
    lines = _layout(_breaks(g1, g2, g3), [1] * NGAP, crlf)
    lines = [lines[0]] + [(" " * (2 * indent)) + ln for ln in lines[1:]]
    if blank and len(lines) > 1:
        lines = lines[:1] + ["\\r" if crlf else ""] + lines[1:]
    got = run_lines(lines)
    return stmts_of(got) == ONE_LINE and others_of(got) == []


# ---------------------------------------------------------------- C08 comments ---------------
COMMENT_TEXTS = [" note", " a, b (c)", " drop this;", " use b instead of a", " insert into t", " CREATE TABLE z (q int)",
                 " x = 1", " it is 100% ok", ";", " GO", " delete me", " alter later"]
NCT = len(COMMENT_TEXTS)
BASE_SCRIPTS = [["CREATE TABLE t (", "a int,", "b varchar(10) NOT NULL,", "c int", ");", "CREATE SEQUENCE q START 1;"],
                # lines that carry quoted literals (a double quote inside single quotes, an apostrophe inside double quotes)
                ["CREATE TABLE t (", "a varchar(3) DEFAULT '\"',", "\"b's\" varchar(10),", "c int DEFAULT 'x'", ");", "CREATE SEQUENCE q START 1;"],
                # literals whose text the spacing rules of pre_process_data touch (comma + blank, parentheses): a second
                # pass of those rules over already prepared text would change them again
                ["CREATE TABLE t (", "a varchar(9) DEFAULT 'x, y',", "b varchar(10) COMMENT 'p (q), r',", "c int", ");", "CREATE SEQUENCE q START 1;"]]
BASE_SCRIPT = BASE_SCRIPTS[env_int("VF_BASE", 0)]
BASE_RESULT = run_lines(BASE_SCRIPT)
NBL = len(BASE_SCRIPT)
KIND = env_int("VF_KIND", 0)
KINDS = ["line_dash", "line_hash", "line_block", "trail_dash", "trail_block", "multi_block", "multi_block_banner", "trail_dash_glued",
         "line_block_trailing_blank"]


def _with_comment(kind, at, text):
    s = list(BASE_SCRIPT)
    if kind == "line_dash":
        return s[:at] + ["--" + text] + s[at:], ["--" + text]
    if kind == "line_hash":
        return s[:at] + ["#" + text] + s[at:], ["#" + text]
    if kind == "line_block":
        return s[:at] + ["/*" + text + " */"] + s[at:], [text + " "]
    if kind == "line_block_trailing_blank":
        tail = [" ", "  ", " ;", "\\t"][len(text) % 4]
        return s[:at] + ["/*" + text + " */" + tail] + s[at:], [text + " */" + tail]
    if kind == "trail_dash":
        a = at % NBL
        return s[:a] + [s[a] + " --" + text] + s[a + 1:], [text]
    if kind == "trail_block":
        a = at % NBL
        return s[:a] + [s[a] + " /*" + text + " */"] + s[a + 1:], [text + " "]
    if kind == "multi_block_banner":
        closer = ["#### */", "---- */", "# end */", "-- done */"][len(text) % 4]  # closing line begins like a line comment
        return s[:at] + ["/*" + text, closer] + s[at:], ["/*" + text, closer]
    if kind == "trail_dash_glued":
        a = at % NBL
        if s[a][-1] in ",()":  # (glued after ',', '(' or ')' the spacing pass separates it anyway: same as trail_dash)
            return s[:a] + [s[a] + " --" + text] + s[a + 1:], [text]
        return s[:a] + [s[a] + "--" + text] + s[a + 1:], [text]
    mid = text.strip() or "x"  # the middle line starts with the text's first word (may be USE / INSERT / GO ...)
    return s[:at] + ["/*" + text, mid, "  " + mid, "*/"] + s[at:], ["/*" + text, mid, "  " + mid, "*/"]


def _squeeze(x: str) -> str:
    return "".join(x.split())


def c_comment(at: int, ti: int) -> bool:
    """
    C08.line: inserting one comment of kind KINDS[KIND] with catalogued text #ti before / after /
    at the end of line `at` of a two-statement script leaves the statements handed to the parser
    unchanged; everything else in the result is the comments entry, made of comment text only.

    pre: 0 <= at <= NBL
    pre: 0 <= ti < NCT
    post: _
    """
    kind = KINDS[KIND]
    lines, comment_lines = _with_comment(kind, at, COMMENT_TEXTS[ti])
    got = run_lines(lines)
    if stmts_of(got) != stmts_of(BASE_RESULT):
        return False
    rest = others_of(got)
    if not rest:
        return True
    if len(rest) != 1 or list(rest[0].keys()) != ["comments"]:
        return False
    # every reported comment item is (part of) the inserted comment text - never code
    # (the pre-processor re-spaces commas / parentheses / '=' inside comment text: compared blank-free)
    joined = _squeeze(" ".join(comment_lines) + COMMENT_TEXTS[ti])
    return all(isinstance(c, str) and _squeeze(c).strip("/*") in joined for c in rest[0]["comments"])


# ---------------------------------------------------------------- C14 rerun ------------------
NCT_RERUN = env_int("VF_NCT", NCT)
RERUN_LINES = [0, 7, 14, 18, 20]  # CREATE TABLE / SELECT / GO / blank / SET as the last line


def words_keep_literals(text: str):
    """the statement's words, blank-insensitive outside single quotes and exact inside them
    (what the lexer sees: blanks between tokens are skipped, a quoted literal is one token)"""
    out, cur, inq = [], "", False
    for ch in text:
        if ch == "'":
            inq = not inq
            cur += ch
        elif ch in " \t" and not inq:
            if cur:
                out.append(cur)
            cur = ""
        else:
            cur += ch
    if cur:
        out.append(cur)
    return out


def lexer_view(result):
    return [(words_keep_literals(r["stmt"]) if isinstance(r, dict) and "stmt" in r else r) for r in result]


def c_rerun(at: int, ti: int, j: int) -> bool:
    """
    C14.rerun: parse_data() twice on one object gives equal results (comments included) and
    the first result is not modified by the second call.

    pre: 0 <= at <= NBL
    pre: 0 <= ti < NCT_RERUN
    pre: 0 <= j < len(RERUN_LINES)
    post: _
    """
    from copy import deepcopy
    lines, _ = _with_comment(KINDS[KIND], at, COMMENT_TEXTS[ti])
    lines = lines + [LINES[RERUN_LINES[j]]]
    first = run_lines(lines)
    snapshot = deepcopy(first)
    # second call on the same object: nothing is re-initialised, Parser.data is whatever the first call left
    second = PARSER.parse_data()
    # statements are compared as the lexer sees them (blanks between tokens do not matter, literals are exact);
    # comments, SET entries and everything else verbatim
    return lexer_view(second) == lexer_view(snapshot) and first == snapshot


# ---------------------------------------------------------------- replay ---------------------
def _api(lines):
    from simple_ddl_parser import DDLParser
    text = "\n".join(ln.replace("\\r", "\r").replace("\\t", "\t") for ln in lines)
    return text, DDLParser(text).run()


def _strip_comments(res):
    return [r for r in res if not (isinstance(r, dict) and list(r.keys()) == ["comments"])]


def api_c_split2(i1, i2):
    return api_c_split3(i1, i2, None)


def api_c_split3(i1, i2, i3):
    from simple_ddl_parser import DDLParser
    idx = [i for i in (i1, i2, i3) if i is not None]
    pre = "CREATE TABLE t (a int, b int);\n"  # so that ALTER / INDEX lines have their target
    text = pre + "\n".join(LINES[i] for i in idx) + "\n"
    try:
        got = DDLParser(text).run()
    except Exception as e:
        got = f"{type(e).__name__}: {e}"
    # expected: fold of the statements taken one at a time after the same preamble
    want_tables = None
    try:
        acc = pre
        parts = []
        for i in idx:
            alone = DDLParser(pre + LINES[i] + "\n\n").run()
            parts.append(alone)
        # entity count must be additive (ALTER/INDEX merge into table t: count contribution 0)
        want = len(DDLParser(pre).run()) + sum(len(p) - 1 for p in parts)
        ok = isinstance(got, list) and len(got) == want
        # and every table named in a line alone must be present, unchanged unless altered
        for p in parts:
            for ent in p[1:]:
                if ent not in got:
                    ok = False
    except Exception as e:
        return {"ddl": text, "got": got, "note": f"oracle failed: {e}", "reproduced": False}
    return {"ddl": text, "got": got, "expected_entities": want, "reproduced": not ok}


# ---------------------------------------------------------------- C05: layout of several statements, with / without ';' ----
L3_STMTS = [("CREATE TABLE a", ["x int", "y varchar(10)"]), ("CREATE TABLE b", ["p int NOT NULL", "q int"]), ("CREATE TABLE c", ["k int", "m int DEFAULT 1"]),
            ("CREATE TABLE d", ["z int"])]


def _l3_lines(si, layout, semi, crlf):
    head, cols = L3_STMTS[si]
    end = ";" if semi else ""
    if layout == 0:
        lines = [head + " (" + ", ".join(cols) + ")" + end]
    elif layout == 1:   # the usual pretty-printed form: '(' on the CREATE line, one column per line
        lines = [head + " ("] + ["    " + c + ("," if i < len(cols) - 1 else "") for i, c in enumerate(cols)] + [")" + end]
    elif layout == 2:   # '(' on its own line
        lines = [head, "("] + ["  " + c + ("," if i < len(cols) - 1 else "") for i, c in enumerate(cols)] + [")" + end]
    else:               # leading-comma style
        lines = [head + " (", "  " + cols[0]] + ["  , " + c for c in cols[1:]] + [")" + end]
    return [ln + ("\\r" if crlf else "") for ln in lines]


L3_SEMI = env_int("VF_L3_SEMI", -1)
L3_L4 = env_int("VF_L3_L4", -1)
L3_ONE = [lexer_view(run_lines(_l3_lines(si, 0, True, False))) for si in range(len(L3_STMTS))]


def c_layout3(l1: int, l2: int, l3: int, l4: int, semi: bool, blank: bool, crlf: bool) -> bool:
    """
    C05: four CREATE TABLE statements, each laid out in one of 4 ways (one line / '(' on the
    CREATE line and one column per line / '(' on its own line / leading commas), terminated by
    ';' or only by the next CREATE line, optionally separated by blank lines, LF or CRLF: the
    parser is handed exactly the four statements of the one-line spelling.

    pre: 0 <= l1 <= 3 and 0 <= l2 <= 3 and 0 <= l3 <= 3 and 0 <= l4 <= 3
    pre: L3_SEMI < 0 or semi == bool(L3_SEMI)
    pre: L3_L4 < 0 or l4 == L3_L4
    post: _
    """
    lines = []
    for si, lay in enumerate((l1, l2, l3, l4)):
        lines += _l3_lines(si, lay, semi, crlf)
        if blank:
            lines.append("\\r" if crlf else "")
    got = lexer_view(run_lines(lines + [""]))
    want = [x for v in L3_ONE for x in v]
    # a statement ended only by the next CREATE line reaches the parser without its closing ')' line (the grammar
    # builds the table without it - confirmed by the public-API replay): trailing ')' / ';' words are not compared
    def strip(v):
        out = []
        for st in v:
            if isinstance(st, list):
                st = list(st)
                while st and st[-1] in (")", ";", ");"):
                    st.pop()
            out.append(st)
        return out
    return strip(got) == strip(want)


def api_c_layout3(l1, l2, l3, l4, semi, blank, crlf):
    from simple_ddl_parser import DDLParser
    lines = []
    for si, lay in enumerate((l1, l2, l3, l4)):
        lines += _l3_lines(si, lay, semi, crlf)
        if blank:
            lines.append("\\r" if crlf else "")
    text = "\n".join(ln.replace("\\r", "\r") for ln in lines) + "\n"
    one = "\n".join(_l3_lines(si, 0, True, False)[0] for si in range(len(L3_STMTS))) + "\n"
    got, want = DDLParser(text).run(), DDLParser(one).run()
    return {"ddl": text, "got_tables": [t.get("table_name") for t in got], "expected_tables": [t.get("table_name") for t in want], "reproduced": got != want}


def c_reach3(i1: int, i2: int, i3: int) -> bool:
    """
    C16.reach: as c_split3 - every statement of a three-line script is handed to the parser
    exactly as when it stands alone, in particular after a skipped statement that has no
    terminating ';'.  (Replayed through the public API with silent=False: the script raises
    DDLParserError exactly when one of its lines alone does.)

    pre: 0 <= i1 < NL and 0 <= i2 < NL and 0 <= i3 < NL
    pre: K1 < 0 or i1 == K1
    post: _
    """
    got = run_lines([LINES[i1], LINES[i2], LINES[i3], ""])
    want = ALONE_THEN_BLANK[i1] + ALONE_THEN_BLANK[i2] + ALONE_THEN_BLANK[i3]
    return got == want


def api_c_reach3(i1, i2, i3):
    from simple_ddl_parser import DDLParser
    from simple_ddl_parser.ddl_parser import DDLParserError
    pre = "CREATE TABLE t (a int, b int);\n"

    def raises(text):
        try:
            DDLParser(text, silent=False).run()
        except DDLParserError:
            return True
        except Exception as e:  # e.g. ValueError for an ALTER of a missing table: not the silent switch
            return f"{type(e).__name__}"
        return False

    alone = [raises(pre + LINES[i] + "\n\n") for i in (i1, i2, i3)]
    text = pre + "\n".join(LINES[i] for i in (i1, i2, i3)) + "\n"
    got = raises(text)
    want = any(a is True for a in alone)
    if any(isinstance(a, str) for a in alone) or isinstance(got, str):
        return {"ddl": text, "note": "another exception type is involved: not decided here", "alone": alone, "script": got, "reproduced": False}
    return {"ddl": text, "silent": False, "script_raises": got, "lines_alone_raise": alone, "reproduced": got != want}


def api_c_lines(g1, g2, g3, indent, blank, crlf):
    lines = _layout(_breaks(g1, g2, g3), [1] * NGAP, crlf)
    lines = [lines[0]] + [(" " * (2 * indent)) + ln for ln in lines[1:]]
    if blank and len(lines) > 1:
        lines = lines[:1] + ["\\r" if crlf else ""] + lines[1:]
    pre = ["CREATE TABLE t (a int, b int);"] if TOK[0] != "CREATE" or TOK[1] != "TABLE" else []
    text, got = _api(pre + lines)
    _, want = _api(pre + [" ".join(TOK[:-1]) + ";"])
    return {"ddl": text, "got": got, "expected": want, "reproduced": got != want}


def api_c_comment(at, ti):
    lines, _ = _with_comment(KINDS[KIND], at, COMMENT_TEXTS[ti])
    text, got = _api(lines)
    _, want = _api(BASE_SCRIPT)
    bad = _strip_comments(got) != _strip_comments(want)
    if not bad:
        for r in got:
            if isinstance(r, dict) and list(r.keys()) == ["comments"]:
                for c in r["comments"]:
                    if "int" in c.split() or "varchar" in c:
                        bad = True
    return {"ddl": text, "got": got, "expected_entities": _strip_comments(want), "reproduced": bad}


def api_c_rerun(at, ti, j):
    from copy import deepcopy
    from simple_ddl_parser import DDLParser
    lines, _ = _with_comment(KINDS[KIND], at, COMMENT_TEXTS[ti])
    text = "\n".join(lines + [LINES[RERUN_LINES[j]]])
    p = DDLParser(text)
    first = p.run()
    snap = deepcopy(first)
    second = p.run()
    return {"ddl": text, "first": snap, "second": second, "first_after_second_call": first,
            "reproduced": second != snap or first != snap}
