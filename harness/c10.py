"""C10 / C12 — output_mode only filters presentation; documented shape.

One process per output mode (VF_MODE).  Symbolic: which dialect key the statement carries,
its value (opaque string), schema presence, number of columns, presence/kind of a following
CREATE INDEX and ALTER ... ADD FOREIGN KEY statement.
"""
from harness._common import env, env_int
from harness.out_common import (ALL_MODES, COMMON_COLUMN_FIELDS, COMMON_TABLE_FIELDS, DIALECT_KEYS, KEY_NAMES,
                                alter_fk, column, fmt, index_stmt, jsonable, memoise_dialect_classes, rename_key, untraced_filter,
                                table_stmt)

MODE = env("VF_MODE", "hql")
memoise_dialect_classes()
if env_int("VF_UNTRACED_FILTER", 1):
    untraced_filter()
KEY_NAMES = [k for k in KEY_NAMES if k != 'dataset']  # 'dataset' is the schema alias, checked as schema
NK = len(KEY_NAMES)


def _norm(res):
    # BigQuery calls the schema 'dataset' everywhere (table entry and reference records)
    return rename_key(res, "dataset", "schema") if MODE == "bigquery" else res


def _common_equal(a: dict, b: dict) -> bool:
    """table entries of mode MODE (a, normalised) and of mode sql (b): common content equal."""
    if a.get("schema") != b.get("schema"):
        return False
    for f in COMMON_TABLE_FIELDS:
        if f == "alter" or f == "index":
            continue
        if (f in b) != (f in a) and f not in ("partition_by",):
            return False
        if f in b and f in a and a[f] != b[f]:
            return False
    if a["alter"] != b["alter"]:
        return False
    # index entries: `clustered` is reported in mssql mode only
    ia = [{k: v for k, v in i.items() if k != "clustered"} for i in a["index"]]
    ib = [{k: v for k, v in i.items() if k != "clustered"} for i in b["index"]]
    if ia != ib:
        return False
    if len(a["columns"]) != len(b["columns"]):
        return False
    for ca, cb in zip(a["columns"], b["columns"]):
        for f in COMMON_COLUMN_FIELDS:
            if f not in ca or ca[f] != cb[f]:
                return False
    return True


def _shape_ok(t: dict) -> bool:
    """Documented shape of a table entry (C12)."""
    schema_key = "dataset" if MODE == "bigquery" else "schema"
    for k in ["table_name", schema_key, "primary_key", "columns", "alter", "checks", "index", "partitioned_by", "tablespace"]:
        if k not in t:
            return False
    if not isinstance(t["primary_key"], list) or not isinstance(t["columns"], list) or not isinstance(t["alter"], dict):
        return False
    if not isinstance(t["checks"], list) or not isinstance(t["index"], list) or not isinstance(t["partitioned_by"], list):
        return False
    names = [c.get("name") for c in t["columns"]]
    for pk in t["primary_key"]:
        if pk not in names:
            return False
    for c in t["columns"]:
        for k in COMMON_COLUMN_FIELDS:
            if k not in c:
                return False
        if not isinstance(c["unique"], bool) or not isinstance(c["nullable"], bool):
            return False
    return jsonable(t)


KLO = env_int("VF_KLO", 0)
KHI = min(env_int("VF_KHI", NK), NK)
VMIN = env_int("VF_VMIN", 0)
VMAX = env_int("VF_VMAX", 2)
HS_SYM = env_int("VF_HS_SYM", 1)
V_SYM = env_int("VF_V_SYM", 0)
_REF_KEY = {hs: fmt([table_stmt("s" if hs else None, "t", [column("a"), column("b", "varchar", 10, nullable=False)])], "sql")
            for hs in (False, True)}


def c_key_filter(k: int, vk: int, v: str, has_schema: bool) -> bool:
    """
    A table carrying one dialect-specific key: reported at top level exactly in the documented
    modes, common content equal to mode sql (reference computed concretely at import).

    pre: KLO <= k < KHI
    pre: 0 <= vk <= 2
    pre: VMIN <= len(v) <= VMAX
    pre: HS_SYM or not has_schema
    post: _
    """
    key = KEY_NAMES[k]
    alias = DIALECT_KEYS[key]["alias"] or key
    stmt = table_stmt("s" if has_schema else None, "t", [column("a"), column("b", "varchar", 10, nullable=False)])
    if not V_SYM:
        v = "x" * len(v)  # concrete stand-in: nothing symbolic enters Output (see untraced_filter)
    value = v if vk == 0 else ([v] if vk == 1 else {"p": v})
    stmt[alias] = value
    raw = fmt([stmt], MODE)
    out = _norm(raw)
    if len(out) != 1 or not isinstance(out[0], dict):
        return False
    t = out[0]
    if not _common_equal(t, _REF_KEY[has_schema][0]) or not _shape_ok(raw[0]):
        return False
    documented = MODE in DIALECT_KEYS[key]["modes"]
    at_top = alias in t
    if documented != at_top:
        return False
    if at_top and vk == 0 and key not in ("lines_terminated_by", "fields_terminated_by"):
        return t[alias] == v
    return True


def c_stmts(ncols: int, has_schema: bool, with_index: bool, alter_kind: int, pk_first: bool) -> bool:
    """
    Table + optional CREATE INDEX + optional ALTER ADD FOREIGN KEY (1 or 2 columns, optional
    referenced schema): no exception, same entities, common content equal to mode sql, shape.

    pre: 1 <= ncols <= 2
    pre: 0 <= alter_kind <= 3
    pre: alter_kind < 2 or ncols == 2
    post: _
    """
    sch = "s" if has_schema else None

    def stmts():
        cols = [column("a", pk=pk_first, nullable=not pk_first)] + ([column("b", "varchar", 10)] if ncols == 2 else [])
        out = [table_stmt(sch, "t", cols), {"schema": None, "sequence_name": "q", "increment": 1}]
        if with_index:
            out.append(index_stmt(sch, "t", "i", ["a"], unique=True, orders=["DESC"]))
        if alter_kind == 1:
            out.append(alter_fk(sch, "t", ["a"], "o", ["x"], None, "c", "CASCADE"))
        elif alter_kind == 2:
            out.append(alter_fk(sch, "t", ["a", "b"], "o", ["x", "y"], None))
        elif alter_kind == 3:
            out.append(alter_fk(sch, "t", ["a", "b"], "o", ["x", "y"], "s2"))
        return out

    raw = fmt(stmts(), MODE)
    out = _norm(raw)
    ref = _REF_STMTS[(ncols, has_schema, with_index, alter_kind, pk_first)]
    if len(out) != len(ref) or len(out) != 2:
        return False
    if not _common_equal(out[0], ref[0]) or not _shape_ok(raw[0]):
        return False
    return out[1] == ref[1] and jsonable(raw)


def _stmts(ncols, has_schema, with_index, alter_kind, pk_first):
    sch = "s" if has_schema else None
    cols = [column("a", pk=pk_first, nullable=not pk_first)] + ([column("b", "varchar", 10)] if ncols == 2 else [])
    out = [table_stmt(sch, "t", cols), {"schema": None, "sequence_name": "q", "increment": 1}]
    if with_index:
        out.append(index_stmt(sch, "t", "i", ["a"], unique=True, orders=["DESC"]))
    if alter_kind == 1:
        out.append(alter_fk(sch, "t", ["a"], "o", ["x"], None, "c", "CASCADE"))
    elif alter_kind == 2:
        out.append(alter_fk(sch, "t", ["a", "b"], "o", ["x", "y"], None))
    elif alter_kind == 3:
        out.append(alter_fk(sch, "t", ["a", "b"], "o", ["x", "y"], "s2"))
    return out


_REF_STMTS = {}
for _n in (1, 2):
    for _hs in (False, True):
        for _wi in (False, True):
            for _ak in (0, 1, 2, 3):
                for _pk in (False, True):
                    if _ak >= 2 and _n != 2:
                        continue
                    _REF_STMTS[(_n, _hs, _wi, _ak, _pk)] = fmt(_stmts(_n, _hs, _wi, _ak, _pk), "sql")


UNKNOWN_KEYS = ["row_format", "avg_row_length", "zz_option", "checksum", "key_block_size", "comment_x"]


def c_props_order(k1: int, k2: int, k3: int) -> bool:
    """
    C14 / C10: options the mode has no field for are reported under table_properties in the
    order they were written (never in a set / hash order).

    pre: 0 <= k1 < 6 and 0 <= k2 < 6 and 0 <= k3 < 6
    pre: k1 != k2 and k2 != k3 and k1 != k3
    post: _
    """
    stmt = table_stmt(None, "t", [column("a")])
    for k in (k1, k2, k3):
        stmt[UNKNOWN_KEYS[k]] = "v"
    out = fmt([stmt], MODE)
    return list(out[0].get("table_properties", {})) == [UNKNOWN_KEYS[k1], UNKNOWN_KEYS[k2], UNKNOWN_KEYS[k3]]


def api_c_props_order(k1, k2, k3):
    import json as _json
    import os
    import subprocess
    import sys
    ddl = "CREATE TABLE t (a int) " + " ".join(f"{UNKNOWN_KEYS[k].upper()}=v" for k in (k1, k2, k3)) + ";"
    outs = []
    for seed in ("0", "1", "2", "3"):
        env = dict(os.environ, PYTHONHASHSEED=seed)
        r = subprocess.run([sys.executable, "-c", "import sys,json\nfrom simple_ddl_parser import DDLParser\nprint(DDLParser(sys.argv[1]).run(output_mode=sys.argv[2], json_dump=True))", ddl, MODE],
                           env=env, capture_output=True, text=True)
        outs.append(r.stdout.strip())
    return {"ddl": ddl, "mode": MODE, "json_per_hash_seed": outs, "reproduced": len(set(outs)) > 1}


def c_json(ncols: int, has_schema: bool, with_index: bool, alter_kind: int, group: bool, with_drop: bool) -> bool:
    """
    run(json_dump=True) returns exactly the JSON encoding of what run() returns, which is
    JSON-serialisable and has the documented shape (parse_data stubbed; real run/Output).

    pre: 1 <= ncols <= 2
    pre: 0 <= alter_kind <= 3
    pre: alter_kind < 2 or ncols == 2
    post: _
    """
    import json
    from copy import deepcopy
    from harness._common import PARSER
    stmts = _stmts(ncols, has_schema, with_index, alter_kind, False)
    if with_drop:
        stmts.append({"schema": "s", "table_name": "old"})  # what DROP TABLE s.old yields: reported as a table entry
    PARSER.parse_data = lambda: deepcopy(stmts)
    try:
        plain = PARSER.run(output_mode=MODE, group_by_type=group)
        dumped = PARSER.run(output_mode=MODE, group_by_type=group, json_dump=True)
    finally:
        del PARSER.parse_data
    if not isinstance(dumped, str) or not jsonable(plain):
        return False
    tables = plain["tables"] if group else [e for e in plain if "table_name" in e]
    if len(tables) != (2 if with_drop else 1) or not all(_shape_ok(t) for t in tables):
        return False
    return dumped == json.dumps(plain) and json.loads(dumped) == plain


def api_c_json(ncols, has_schema, with_index, alter_kind, group, with_drop):
    import json
    from simple_ddl_parser import DDLParser
    ddl = _ddl(ncols, has_schema, with_index, alter_kind, False) + ("DROP TABLE s.old;\n" if with_drop else "")
    plain = DDLParser(ddl).run(output_mode=MODE, group_by_type=group)
    dumped = DDLParser(ddl).run(output_mode=MODE, group_by_type=group, json_dump=True)
    tables = plain["tables"] if group else [e for e in plain if "table_name" in e]
    ok = isinstance(dumped, str) and dumped == json.dumps(plain) and len(tables) == (2 if with_drop else 1) and all(_shape_ok(t) for t in tables)
    return {"ddl": ddl, "mode": MODE, "got": dumped, "expected": json.dumps(plain), "reproduced": not ok}


def _ddl(ncols, has_schema, with_index, alter_kind, pk_first):
    name = "s.t" if has_schema else "t"
    cols = ["a int" + (" PRIMARY KEY" if pk_first else "")] + (["b varchar(10)"] if ncols == 2 else [])
    ddl = f"CREATE TABLE {name} ({', '.join(cols)});\nCREATE SEQUENCE q INCREMENT 1;\n"
    if with_index:
        ddl += f"CREATE UNIQUE INDEX i ON {name} (a DESC);\n"
    if alter_kind == 1:
        ddl += f"ALTER TABLE {name} ADD CONSTRAINT c FOREIGN KEY (a) REFERENCES o (x) ON DELETE CASCADE;\n"
    elif alter_kind == 2:
        ddl += f"ALTER TABLE {name} ADD FOREIGN KEY (a, b) REFERENCES o (x, y);\n"
    elif alter_kind == 3:
        ddl += f"ALTER TABLE {name} ADD FOREIGN KEY (a, b) REFERENCES s2.o (x, y);\n"
    return ddl


def api_c_stmts(ncols, has_schema, with_index, alter_kind, pk_first):
    from simple_ddl_parser import DDLParser
    ddl = _ddl(ncols, has_schema, with_index, alter_kind, pk_first)
    ref = DDLParser(ddl).run(output_mode="sql")
    try:
        raw = DDLParser(ddl).run(output_mode=MODE)
    except Exception as e:
        return {"ddl": ddl, "mode": MODE, "reproduced": True, "got": f"{type(e).__name__}: {e}", "expected": "same entities as output_mode='sql'"}
    out = _norm(raw)
    ok = len(out) == len(ref) and _common_equal(out[0], ref[0]) and _shape_ok(raw[0]) and out[1:] == ref[1:]
    return {"ddl": ddl, "mode": MODE, "expected_common": ref, "got": raw, "reproduced": not ok}


# clause spellings used to replay c_key_filter counterexamples through the real front end
SPELL = {
    "stored_as": "STORED AS {}", "location": "LOCATION '{}'", "tblproperties": None, "engine": "ENGINE={}",
    "tablespace": "TABLESPACE {}", "textimage_on": "TEXTIMAGE_ON {}", "diststyle": "DISTSTYLE {}",
    "auto_increment": "AUTO_INCREMENT={}", "on": "ON {}",
}


def api_c_key_filter(k, vk, v, has_schema):
    from simple_ddl_parser import DDLParser
    key = KEY_NAMES[k]
    sp = SPELL.get(key)
    if not sp:
        return None  # no front-end spelling catalogued for this key: unit-level replay only
    val = "".join(ch for ch in v if ch.isalnum()) or "x"
    name = "s.t" if has_schema else "t"
    ddl = f"CREATE TABLE {name} (a int, b varchar(10) NOT NULL) " + sp.format(val) + ";"
    ref = DDLParser(f"CREATE TABLE {name} (a int, b varchar(10) NOT NULL);").run()
    raw = DDLParser(ddl).run(output_mode=MODE)
    out = _norm(raw)
    ok = len(out) == 1 and _common_equal(out[0], ref[0])
    documented = MODE in DIALECT_KEYS[key]["modes"]
    if ok:
        ok = (key in out[0]) == documented
    return {"ddl": ddl, "mode": MODE, "got": raw, "documented_at_top_level": documented, "reproduced": not ok}
