"""C17 — CREATE SEQUENCE options: exact values, one key per option, frame kept.

Structural choice (one process each): VF_FORM = index into FORMS.
Symbolic: the numeral text (sign + digit string), the pre-state of the sequence dict
(which other option keys are already present and their values), schema presence.
"""
import simple_ddl_parser.dialects.sql as sqlmod
from harness._common import call_action, drive, env, env_int

# (option tokens before the number, takes_number, expected key, expected constant)
FORMS = [
    (["INCREMENT"], True, "increment", None),
    (["INCREMENT", "BY"], True, "increment_by", None),
    (["START"], True, "start", None),
    (["START", "WITH"], True, "start_with", None),
    (["MINVALUE"], True, "minvalue", None),
    (["MAXVALUE"], True, "maxvalue", None),
    (["CACHE"], True, "cache", None),
    (["NO", "MINVALUE"], False, "minvalue", False),
    (["NO", "MAXVALUE"], False, "maxvalue", False),
    (["CACHE"], False, "cache", True),
    (["NOORDER"], False, "noorder", True),
    (["ORDER"], False, "order", True),
]
FORM = env_int("VF_FORM", 0)
MAXDIG = env_int("VF_MAXDIG", 2)
KW, TAKES_NUM, KEY, CONST = FORMS[FORM]
# VF_BIGPREFIX: concrete leading digits put in front of the symbolic ones, so that the
# magnitudes around 2**63 are inside the quantified range without 19 symbolic digits.
BIGPREFIX = env("VF_BIGPREFIX", "")
# VF_UF=1: `int` as seen by dialects/sql.py is replaced by an uninterpreted function
# (an object that only remembers its argument), so that the numeral text can be an
# arbitrary symbolic string of any content up to MAXDIG characters: the claim is then
# "the key holds int(<exactly the written text>)", int() itself being trusted.
UF = env_int("VF_UF", 0)

OTHER_KEYS = ["increment", "increment_by", "start", "start_with", "minvalue", "maxvalue", "cache", "noorder", "order"]


class UInt:
    def __init__(self, arg):
        self.arg = arg

    def __eq__(self, other):
        return isinstance(other, UInt) and self.arg == other.arg

    def __repr__(self):
        return f"int({self.arg!r})"


if UF:
    sqlmod.int = UInt


def _val(s: str) -> int:
    v = 0
    for ch in s:
        v = v * 10 + (ord(ch) - 48)
    return v


def _numeral(neg: bool, s: str):
    digs = BIGPREFIX + s
    text = ("-" if neg else "") + digs
    if UF:
        return text, UInt(text)
    v = _val(digs)
    return text, (-v if neg else v)


def _same(out, expected) -> bool:
    return out == expected and type(out[KEY]) is type(expected[KEY])


def c_seq_value(neg: bool, s: str, has_schema: bool) -> bool:
    """
    The option's value through the real p_expression_seq: exact int (sign, every digit),
    False for NO ..., True for a bare flag, written under exactly one key.

    pre: 1 <= len(s) <= MAXDIG
    pre: UF or all("0" <= ch <= "9" for ch in s)
    post: _
    """
    text, val = _numeral(neg, s)
    state = {"schema": "s" if has_schema else None, "sequence_name": "q"}
    rhs = [state] + list(KW) + ([text] if TAKES_NUM else [])
    out = call_action("p_expression_seq", rhs)
    expected = {"schema": "s" if has_schema else None, "sequence_name": "q", KEY: val if TAKES_NUM else CONST}
    return _same(out, expected)


def c_seq_frame(d: str, has_schema: bool, k1: int, v1: int, k2: int, v2: int) -> bool:
    """
    Frame: folding one option into an arbitrary sequence dict (two other option keys already
    present with arbitrary values) writes its own key only.

    pre: len(d) == 1 and "0" <= d <= "9"
    pre: 0 <= k1 < 9 and 0 <= k2 < 9 and k1 != k2
    pre: -9 <= v1 <= 9 and -9 <= v2 <= 9
    post: _
    """
    state = {"schema": "s" if has_schema else None, "sequence_name": "q"}
    if OTHER_KEYS[k1] != KEY:
        state[OTHER_KEYS[k1]] = v1
    if OTHER_KEYS[k2] != KEY:
        state[OTHER_KEYS[k2]] = v2
    before = dict(state)
    rhs = [state] + list(KW) + ([d] if TAKES_NUM else [])
    out = call_action("p_expression_seq", rhs)
    expected = dict(before)
    expected[KEY] = _val(d) if TAKES_NUM else CONST
    return _same(out, expected)


def c_seq_drive(neg: bool, s: str, has_schema: bool) -> bool:
    """
    CREATE SEQUENCE [s .] q <option> through the real LALR driver and actions.

    pre: 1 <= len(s) <= MAXDIG
    pre: all("0" <= ch <= "9" for ch in s)
    post: _
    """
    text, val = _numeral(neg, s)
    toks = [("CREATE", "CREATE"), ("SEQUENCE", "SEQUENCE")]
    if has_schema:
        toks += [("ID", "s"), ("DOT", "."), ("ID", "q")]
    else:
        toks += [("ID", "q")]
    toks += [(k, k) for k in KW]
    if TAKES_NUM:
        toks.append(("ID", text))
    out = drive(toks)
    expected = {"schema": "s" if has_schema else None, "sequence_name": "q", KEY: val if TAKES_NUM else CONST}
    return _same(out, expected)


# ---- public-API replay of a counterexample -------------------------------------------------

def api_c_seq_value(neg, s, has_schema):
    from simple_ddl_parser import DDLParser
    digs = BIGPREFIX + s
    text = ("-" if neg else "") + digs
    cands = [digs]
    if UF and not digs.isdigit():
        # int() was uninterpreted and the text arbitrary: replay numerals of the same shape
        cands = ["".join(str(ord(c) % 10) for c in digs), "1" * len(digs), "9" * len(digs)]
    last = None
    for digs in cands:
        text = ("-" if neg else "") + digs
        val = int(text)
        name = "s.q" if has_schema else "q"
        ddl = f"CREATE SEQUENCE {name} " + " ".join(KW) + (f" {text}" if TAKES_NUM else "") + ";"
        expected = [{"schema": "s" if has_schema else None, "sequence_name": "q", KEY: val if TAKES_NUM else CONST}]
        got = DDLParser(ddl).run()
        ok = got == expected and type(got[0][KEY]) is type(expected[0][KEY])
        last = {"ddl": ddl, "expected": expected, "got": got, "reproduced": not ok}
        if not ok:
            return last
    return last


def api_c_seq_drive(neg, s, has_schema):
    return api_c_seq_value(neg, s, has_schema)


def api_c_seq_frame(d, has_schema, k1, v1, k2, v2):
    """Two other options first, then the option under test; all keys must be reported."""
    from simple_ddl_parser import DDLParser
    spell = {"increment": "INCREMENT {}", "increment_by": "INCREMENT BY {}", "start": "START {}",
             "start_with": "START WITH {}", "minvalue": "MINVALUE {}", "maxvalue": "MAXVALUE {}",
             "cache": "CACHE {}", "noorder": "NOORDER", "order": "ORDER"}
    parts, expected = [], {"schema": "s" if has_schema else None, "sequence_name": "q"}
    for k, v in ((k1, v1), (k2, v2)):
        key = OTHER_KEYS[k]
        if key == KEY:
            continue
        parts.append(spell[key].format(v))
        expected[key] = v if "{}" in spell[key] else True
    parts.append(" ".join(KW) + (f" {d}" if TAKES_NUM else ""))
    expected[KEY] = int(d) if TAKES_NUM else CONST
    ddl = "CREATE SEQUENCE " + ("s.q" if has_schema else "q") + " " + " ".join(parts) + ";"
    got = DDLParser(ddl).run()
    return {"ddl": ddl, "expected": [expected], "got": got, "reproduced": got != [expected]}
